#!/venv/bin/python
"""Deterministic simulation checks for PyFVTool (see DESIGN.md).

  check.py --setup
  check.py --property C09 --tier quick|thorough [--runs N] [--workers N]
  check.py --replay replays/C09-123.json
  check.py --selftest determinism [--n 16]

exit 0: property held on everything explored (KNOWN-FINDING lines allowed)
exit 1: `VIOLATION property=<id> replay=<path>` printed
exit 2: harness error (never silent, never a VIOLATION)
"""
import argparse
import faulthandler
import json
import multiprocessing
import os
import subprocess
import sys
import time
import traceback
from collections import Counter
from concurrent.futures import ProcessPoolExecutor, as_completed

HERE = os.path.dirname(os.path.abspath(__file__))
sys.path.insert(0, HERE)
for _k in ("OPENBLAS_NUM_THREADS", "OMP_NUM_THREADS", "MKL_NUM_THREADS"):
    os.environ[_k] = "1"

from dst import adapter as A          # noqa: E402
from dst import run as R              # noqa: E402
from dst import strat as S            # noqa: E402
from dst.shrink import shrink         # noqa: E402
from dst.util import jdump            # noqa: E402

GATE_INV = {"C09": ("I3",), "C14": ("I2",), "C15": ("I1", "I7", "I8"),
            "C03": ("I4",), "C04": ("I5", "I5-ghostrow"), "C12": ("I6",)}

# (fault-free runs, fault-injecting runs) per tier
BUDGET = {
    "quick": {"C09": (1200, 700), "C14": (2400, 600), "C15": (2000, 600),
              "C03": (1800, 600), "C04": (1800, 700), "C12": (1800, 600)},
    "thorough": {"C09": (30000, 18000), "C14": (100000, 20000), "C15": (80000, 20000),
                 "C03": (72000, 20000), "C04": (72000, 24000), "C12": (72000, 20000)},
}
WALL_CAP = {"quick": 1500, "thorough": 4 * 3600}
DEFAULT_SEED = {"quick": 20260923, "thorough": 7}

# reach probes that a batch of this property is expected to hit (a probe stuck at
# zero means the workload or fault mix must change); reported, never an exit status
REQUIRED_PROBES = {
    "C09": ["i3:checked-shared", "i3:checked-while-bc-dirty", "explicit-result-fed-to-implicit",
            "edit:through-retained-view", "edit:view-of-view", "solve:shared-bc-dirty",
            "term-reused-3+-solves", "fault-while-target-dirty", "periodic:z-axis-on",
            "edit:untracked:", "edit:update_value-from-bc-sharer"],
    "C14": ["algebra:v:add:", "algebra:v:pow:", "algebra:f:sub:scalar-var", "algebra:funceval:3",
            "algebra:faceeval:2", "algebra:funceval:8", "scribble:v", "scribble:b"],
    "C15": ["build:faceLocations:", "build:harmonicMean:", "build:convectionTVDupwindRHSTerm:",
            "rebuild:", "scribble:t", "scribble:f", "mesh:regraded-twin"],
    "C03": ["i4:flags:Grid3D:--P", "i4:flags:SphericalGrid3D:--P", "i4:flags:CylindricalGrid3D:-P-",
            "i4:flags:PolarGrid2D:-P", "i4:flags:Grid1D:P", "util:fixedGradient-scale_coeffs",
            "edit:scale3:negative", "edit:untracked:", "mesh:regraded-twin"],
    "C04": ["solve:term-format-csc", "term-reused-3+-solves", "solve:shared-bc-dirty"],
    "C12": ["fixedpoint:alpha-field", "fixedpoint:alpha-scalar", "transient:alpha-field",
            "limit:dt-inf", "limit:dt-zero", "explicit-result-fed-to-implicit",
            "edit:update_value-from-bc-sharer"],
}

COMPONENTS = {
    "real": ["pyfvtool meshes, boundary conditions, CellVariable/FaceVariable, all term builders",
             "solvePDE / solveMatrixPDE / solveExplicitPDE",
             "scipy SuperLU spsolve (directly, or behind the recording fake)"],
    "stub": ["external solver passed as externalsolver= (simulator fake: records the system, "
             "delegates to spsolve / returns a marked vector / raises / returns a wrong shape)",
             "pyfvtool.solvers.oneMKL_pardiso (not run: mkl_rt absent in the sandbox)",
             "matplotlib / visualizeCells (never invoked)",
             "the user (simulated tasks emitting API calls)"],
}


NO_EVIDENCE = False
STOP_FIRST = False      # sensitivity tooling only: stop the batch at the first violation


def load_known():
    p = os.path.join(HERE, "known_findings.json")
    if not os.path.exists(p):
        return []
    with open(p) as f:
        data = json.load(f)
    return data.get("findings", [])


def work(prop, master, idxs, tier, faults):
    """Worker: one chunk of runs.  The library is re-imported first, so that every
    chunk starts from the same pristine library state (module-level caches, mutable
    default arguments, class attributes inside PyFVTool): what a run sees then
    depends on the earlier runs *of its chunk* only, which are recorded with a
    violation, and not on which chunks this pool worker happened to execute before."""
    if not faulthandler.is_enabled():
        faulthandler.enable()       # a crash inside a C extension leaves a Python traceback
    A.reset()
    return _work_chunk(prop, master, idxs, tier, faults)


def _work_chunk(prop, master, idxs, tier, faults):
    faulthandler.dump_traceback_later(900, exit=True)
    chunk_ops = []
    agg = {"runs": 0, "ops": 0, "stats": Counter(), "probes": Counter(),
           "oracle": Counter(), "digests": {}, "trans": set(), "viol": [],
           "samples": [], "errors": [], "known": Counter(), "wall": 0.0, "notes": [],
           "strat": Counter()}
    family = faults[6:] if isinstance(faults, str) else None
    for i in idxs:
        seed = i if family else R.run_seed_for(master, prop, i, faults)
        try:
            r = R.simulate_strat(prop, family, i, master) if family else R.simulate(prop, seed, tier, faults)
        except Exception:
            agg["errors"].append({"seed": seed, "i": i, "tb": traceback.format_exc()})
            continue
        agg["runs"] += 1
        agg["ops"] += len(r["ops"])
        agg["wall"] += r["wall"]
        chunk_ops.append(r["ops"])
        agg["stats"].update(r["stats"])
        agg["probes"].update(r["probes"])
        agg["oracle"].update(r["oracle_runs"])
        gated = sum(r["oracle_runs"].get(g, 0) for g in GATE_INV[prop])
        agg["digests"][r["digest"][:24]] = gated > 0
        agg["trans"] |= r["trans"]
        agg["known"].update(r["known_hits"])
        if r["notes"] and len(agg["notes"]) < 3:
            agg["notes"].append({"seed": seed, "note": r["notes"][0]})
        if r["violation"]:
            agg["viol"].append({"seed": seed, "i": i, "faults": faults,
                                "vclass": list(r["vclass"]), "violation": r["violation"],
                                "ops": r["ops"], "swarm": r["swarm"],
                                "shadow": True if family else bool((r["swarm"] or {}).get("shadow")),
                                "prefix": [list(o) for o in chunk_ops[:-1]]})
        elif len(agg["samples"]) < 1 and gated > 0 and len(r["ops"]) <= 40:
            agg["samples"].append({"seed": seed, "faults": faults, "ops": r["ops"],
                                   "digest": r["digest"]})
        if family:
            agg["strat"][family] += 1
    faulthandler.cancel_dump_traceback_later()
    agg["trans"] = sorted(jdump(t) for t in agg["trans"])
    return agg


def run_batch(prop, tier, master, n_ff, n_f, workers, deadline, strata=()):
    ctx = multiprocessing.get_context("fork")
    jobs = []
    chunk = 8 if tier == "quick" else 25
    for faults, n in ((False, n_ff), (True, n_f)):
        for s in range(0, n, chunk):
            jobs.append((faults, list(range(s, min(n, s + chunk)))))
    for family, total_space, n in strata:
        idxs = S.sample_indices(master, family, total_space, n)
        sc = chunk * (1 if prop == "C09" else 4)
        for s in range(0, len(idxs), sc):
            jobs.append(("strat:" + family, idxs[s:s + sc]))
    total = {"runs": 0, "ops": 0, "stats": Counter(), "probes": Counter(),
             "oracle": Counter(), "digests": {}, "trans": set(), "viol": [],
             "samples": [], "errors": [], "known": Counter(), "wall": 0.0,
             "runs_ff": 0, "runs_f": 0, "runs_strat": 0, "skipped_jobs": 0, "notes": [],
             "strat": Counter()}
    pending = list(jobs)
    for attempt in (1, 2, 3):
        # a worker that dies (watchdog, kernel OOM, a crash inside a C extension - scipy's
        # SuperLU has been seen to segfault, rarely and not reproducibly, on matrices the
        # scribbler had made singular) breaks the whole pool: the jobs that did not
        # complete are retried in a fresh pool, twice at most; a third failure is a
        # harness error
        failed = []
        with ProcessPoolExecutor(max_workers=workers, mp_context=ctx) as ex:
            futs = {ex.submit(work, prop, master, idxs, tier, faults): (faults, idxs)
                    for faults, idxs in pending}
            try:
                for fu in as_completed(futs, timeout=max(1, deadline - time.time())):
                    faults, idxs = futs[fu]
                    try:
                        a = fu.result()
                    except Exception:
                        failed.append(((faults, idxs), traceback.format_exc()))
                        continue
                    for k in ("runs", "ops", "wall"):
                        total[k] += a[k]
                    total["runs_strat" if isinstance(faults, str) else
                          "runs_f" if faults else "runs_ff"] += a["runs"]
                    for k in ("stats", "probes", "oracle", "known", "strat"):
                        total[k].update(a[k])
                    total["digests"].update(a["digests"])
                    total["trans"] |= set(a["trans"])
                    total["viol"] += a["viol"]
                    total["errors"] += a["errors"]
                    total["notes"] += a["notes"][:1]
                    if len(total["samples"]) < 3:
                        total["samples"] += a["samples"][:1]
                    if STOP_FIRST and total["viol"]:
                        for f2 in futs:
                            f2.cancel()
                        total["stopped_early"] = True
                        break
            except Exception:
                total["errors"].append({"tb": "batch deadline reached: " + traceback.format_exc()})
                for fu in futs:
                    fu.cancel()
                for p in list(getattr(ex, "_processes", {}).values()):
                    try:
                        p.terminate()
                    except Exception:
                        pass
                return total
        if not failed:
            break
        if attempt < 3:
            print("note: %d job(s) lost to a dead worker, retrying (attempt %d)"
                  % (len(failed), attempt + 1), flush=True)
            total["skipped_jobs"] += len(failed)
            pending = [j for j, _ in failed]
        else:
            for j, tb in failed[:3]:
                total["errors"].append({"tb": tb, "idxs": j[1]})
    return total


def write_replay(prop, v, ops, digest=None, cross=False, runs=None):
    rdir = os.environ.get("VERIF_REPLAY_DIR", os.path.join(HERE, "replays"))
    os.makedirs(rdir, exist_ok=True)
    tag = "xproc-" if v["faults"] == "xproc" else \
        (v["faults"][6:] + "-" if isinstance(v["faults"], str) else "")
    path = os.path.join(rdir, "%s-%s%d.json" % (prop, tag, v["seed"]))
    doc = {"format": 1, "property": prop, "seed": v["seed"], "faults": v["faults"],
           "config": v.get("swarm"), "ops": ops, "violation": v["violation"],
           "vclass": v["vclass"], "digest": digest, "shadow": bool(v.get("shadow", True))}
    if cross:
        doc["cross_interpreter"] = True
    if runs is not None:
        doc["multi_run"] = True
        doc["runs"] = runs
        doc["shadow"] = True        # multi-run traces are minimised and replayed with shadow solves on
    with open(path, "w") as f:
        json.dump(doc, f, indent=1, default=str)
    return path


def replay_file(path, quiet=False):
    with open(path) as f:
        doc = json.load(f)
    prop = doc["property"]
    if doc.get("multi_run"):
        # earlier runs of the chunk first, each in its own world, in this process
        for ops in doc["runs"][:-1]:
            R.replay(prop, ops, shadow=doc.get("shadow", True))
    r = R.replay(prop, doc["ops"], shadow=doc.get("shadow", True))
    same_cls = r["vclass"] is not None and list(r["vclass"]) == list(doc["vclass"])
    if not quiet:
        print("replay %s: %d ops, violation=%s" % (path, len(doc["ops"]), r["violation"]))
        if doc.get("digest"):
            print("digest %s (recorded %s) digest-match=%s"
                  % (r["digest"], doc["digest"], "yes" if r["digest"] == doc["digest"] else "no"))
    return prop, r, same_cls


def fresh_replay_ok(path):
    """Re-execute the replay file in a fresh interpreter; must fail the same way."""
    env = dict(os.environ, PYTHONHASHSEED="0")
    p = subprocess.run([sys.executable, os.path.join(HERE, "check.py"), "--replay", path],
                       capture_output=True, text=True, env=env, timeout=600)
    return p.returncode == 1 and "VIOLATION" in p.stdout and "digest-match=yes" in p.stdout


# --------------------------------------------------------------------------
# violations that need the earlier runs of their chunk (process-global state
# inside the library): multi-run replay
# --------------------------------------------------------------------------

def _xchunk(prop, runs):
    """Execute op lists one after the other (one World each) in ONE fresh
    interpreter; returns [[vclass or None, digest], ...]."""
    import tempfile
    with tempfile.NamedTemporaryFile("w", suffix=".json", delete=False, dir="/tmp") as f:
        json.dump({"property": prop, "runs": runs}, f, default=str)
        path = f.name
    try:
        env = dict(os.environ, PYTHONHASHSEED="0")
        p = subprocess.run([sys.executable, os.path.join(HERE, "check.py"), "--xchunk", path],
                           capture_output=True, text=True, env=env, timeout=1800)
        if p.returncode != 0:
            raise RuntimeError("xchunk failed: " + p.stderr[-1500:])
        return json.loads(p.stdout.strip().splitlines()[-1])
    finally:
        try:
            os.unlink(path)
        except OSError:
            pass


def run_chunk_here(prop, runs):
    out = []
    for ops in runs:
        r = R.replay(prop, ops)
        out.append([list(r["vclass"]) if r["vclass"] else None, r["digest"], r["violation"]])
    return out


def multi_shrink(prop, prefix, ops, vclass, budget=60):
    """The violation of the last run needs earlier runs of its chunk.  Minimise the
    list of runs (drop whole runs, then ddmin inside each remaining run), every
    candidate evaluated in a fresh interpreter.  Returns the list of op lists or
    None if the chunk does not reproduce the class from a pristine process."""
    def clean(o):
        o = [dict(x) for x in o]
        for x in o:
            x.pop("task", None)
        return o
    runs = [clean(o) for o in prefix] + [clean(ops)]
    state = {"budget": budget}

    def fails(cand):
        if state["budget"] <= 0:
            return False
        state["budget"] -= 1
        try:
            res = _xchunk(prop, cand)
        except Exception:
            return False
        return res[-1][0] is not None and tuple(res[-1][0]) == tuple(vclass)
    if not fails(runs):
        return None
    # drop whole earlier runs, last first
    i = len(runs) - 2
    while i >= 0 and state["budget"] > 0:
        cand = runs[:i] + runs[i + 1:]
        if fails(cand):
            runs = cand
        i -= 1
    # halve the op lists of the remaining runs (coarse ddmin, tail first for earlier runs)
    for k in range(len(runs)):
        n = 2
        while len(runs[k]) >= 2 and state["budget"] > 0:
            chunk = max(1, len(runs[k]) // n)
            reduced = False
            i = 0
            while i < len(runs[k]) and state["budget"] > 0:
                cand_ops = runs[k][:i] + runs[k][i + chunk:]
                cand = runs[:k] + [cand_ops] + runs[k + 1:]
                if cand_ops and fails(cand):
                    runs[k] = cand_ops
                    n = max(n - 1, 2)
                    reduced = True
                else:
                    i += chunk
            if not reduced:
                if chunk == 1:
                    break
                n = min(len(runs[k]), n * 2)
    return runs


# --------------------------------------------------------------------------
# C15 / I7 across interpreter instances: the same ops executed in fresh
# interpreters under different hash seeds must produce the same bytes
# --------------------------------------------------------------------------

XHASHSEEDS = ("0", "1", "2", "3")


def _event_digests(prop, ops):
    r = R.replay(prop, ops)
    return [e[2][:16] for e in r["events"]]


def _xrun_ops_in_fresh(prop, ops_list, hashseed):
    """Execute op lists in one fresh interpreter; returns their per-event digests."""
    import tempfile
    with tempfile.NamedTemporaryFile("w", suffix=".json", delete=False, dir="/tmp") as f:
        json.dump({"property": prop, "ops_list": ops_list}, f)
        path = f.name
    try:
        env = dict(os.environ, PYTHONHASHSEED=hashseed)
        p = subprocess.run([sys.executable, os.path.join(HERE, "check.py"), "--xrun", path],
                           capture_output=True, text=True, env=env, timeout=1800)
        if p.returncode != 0:
            raise RuntimeError("xrun failed: " + p.stderr[-1500:])
        return json.loads(p.stdout.strip().splitlines()[-1])
    finally:
        try:
            os.unlink(path)
        except OSError:
            pass


def cross_interpreter_check(prop, master, n, tot):
    """n random + n stratified runs of this property: generated and executed here,
    then their recorded op lists re-executed in two fresh interpreters with
    different hash seeds; every event digest (bytes of everything an op wrote or
    created) must agree.  Returns a list of violation records."""
    runs = []
    for i in range(n):
        runs.append(R.simulate(prop, R.run_seed_for(master + 7, prop, i, i % 2), "quick", bool(i % 2)))
    fams = S.families(prop, "thorough")
    for fam, space, _ in fams:
        # (the tail of the `terms` index space holds the three-term lists, where the
        # order of summation can show in the last bit)
        idxs = S.sample_indices(master + 7, fam, space, max(1, n // 2))
        if fam == "terms":
            idxs = [space - 1 - (i % (space // 2)) for i in idxs] + idxs[:n // 4]
        for idx in idxs:
            runs.append(R.simulate_strat(prop, fam, idx, master))
    runs = [r for r in runs if not r["violation"]]
    ops_list = [r["ops"] for r in runs]
    here = [[e[2][:16] for e in r["events"]] for r in runs]
    others = [_xrun_ops_in_fresh(prop, ops_list, hs) for hs in XHASHSEEDS]
    tot["oracle"]["I7-cross-interpreter"] += len(runs) * len(XHASHSEEDS)
    out = []
    seen = set()
    for k, r in enumerate(runs):
        for other in others:
            if other[k] == here[k]:
                continue
            j = next((j for j in range(min(len(here[k]), len(other[k])))
                      if here[k][j] != other[k][j]), min(len(here[k]), len(other[k])))
            op = r["ops"][min(j, len(r["ops"]) - 1)]
            sub = op.get("a", {}).get("fn") or op.get("a", {}).get("op") or ""
            sig = "cross-interpreter/%s%s" % (op["k"], ":" + sub if sub else "")
            if sig in seen:
                break
            seen.add(sig)
            out.append({"seed": int(r["seed"] or 0), "i": k, "faults": "xproc",
                        "vclass": ["C15", "I7", sig], "ops": r["ops"][:j + 1], "swarm": r["swarm"],
                        "violation": {"property": "C15", "invariant": "I7", "signature": sig,
                                      "detail": {"step": j, "op": op,
                                                 "what": "event digests differ between interpreter "
                                                         "instances (PYTHONHASHSEED %s)"
                                                         % "/".join(XHASHSEEDS)}}})
            break
    return out


def _xdiffer(prop, ops):
    res = [_xrun_ops_in_fresh(prop, [ops], hs)[0] for hs in XHASHSEEDS]
    return any(x != res[0] for x in res[1:])


def cross_shrink(prop, ops, budget=40):
    """ddmin over the op list with 'digests differ between interpreters' as the
    predicate (each evaluation starts len(XHASHSEEDS) fresh interpreters)."""
    ops = list(ops)
    n = 2
    while len(ops) >= 2 and budget > 0:
        chunk = max(1, len(ops) // n)
        reduced = False
        i = 0
        while i < len(ops) and budget > 0:
            cand = ops[:i] + ops[i + chunk:]
            budget -= 1
            if cand and _xdiffer(prop, cand):
                ops = cand
                n = max(n - 1, 2)
                reduced = True
            else:
                i += chunk
        if not reduced:
            if chunk == 1:
                break
            n = min(len(ops), n * 2)
    return ops


def cross_replay(doc, path):
    """Replay of a cross-interpreter violation: the recorded ops in two fresh
    interpreters with different hash seeds; VIOLATION iff their digests differ."""
    prop = doc["property"]
    res = [_xrun_ops_in_fresh(prop, [doc["ops"]], hs)[0] for hs in XHASHSEEDS]
    print("replay %s: %d ops in fresh interpreters with PYTHONHASHSEED=%s"
          % (path, len(doc["ops"]), "/".join(XHASHSEEDS)))
    a = res[0]
    b = next((x for x in res[1:] if x != a), a)
    if a != b:
        j = next((j for j in range(min(len(a), len(b))) if a[j] != b[j]), -1)
        print("event digests differ at op %d" % j)
        print("VIOLATION property=%s replay=%s" % (prop, path))
        return 1
    print("replay did not reproduce a violation")
    return 0


def finding_matches(f, vclass):
    return (f.get("property") == vclass[0] and f.get("invariant") == vclass[1]
            and f.get("signature") == vclass[2])


def check_property(prop, tier, master, n_ff, n_f, workers, strat_scale=1.0):
    t0 = time.time()
    A.load()
    known = load_known()
    R.KNOWN = [(f["property"], f["invariant"], f["signature"])
               for f in known if f.get("status") == "known"]
    print("VERIF_SEED=%d property=%s tier=%s runs=%d+%d workers=%d src=%s"
          % (master, prop, tier, n_ff, n_f, workers, A.src_dir()), flush=True)
    deadline = t0 + WALL_CAP[tier]
    strata = [(f, space, int(round(n * strat_scale))) for f, space, n in S.families(prop, tier)]
    strata = [x for x in strata if x[2] > 0]
    print("stratified: " + ", ".join("%s %d/%d" % (f, min(n, sp), sp) for f, sp, n in strata),
          flush=True)
    tot = run_batch(prop, tier, master, n_ff, n_f, workers, deadline, strata)
    tot["strata"] = strata
    # regression: the minimised traces of the defects that were found and repaired
    # (findings/*.json, recorded before the "fix:" commits) are re-executed in every
    # run of the check; a fixed finding suppresses nothing - if the defect returns,
    # its trace reports it at once instead of waiting for the random search
    import glob
    for fpath in sorted(glob.glob(os.path.join(HERE, "findings", "*.json"))):
        try:
            with open(fpath) as f:
                fdoc = json.load(f)
        except Exception:
            continue
        if fdoc.get("property") != prop:
            continue
        A.reset()
        rr = R.replay(prop, fdoc["ops"])
        tot["oracle"]["regression-traces"] += 1
        if rr["violation"]:
            tot["viol"].append({"seed": int(fdoc.get("seed") or 0), "i": -1, "faults": "strat:regression",
                                "vclass": list(rr["vclass"]), "violation": rr["violation"],
                                "ops": fdoc["ops"], "swarm": {"regression_trace": os.path.basename(fpath)},
                                "prefix": []})
    xviol = []
    if prop == "C15" and not STOP_FIRST:
        try:
            xviol = cross_interpreter_check(prop, master, 16 if tier == "quick" else 200, tot)
        except Exception:
            tot["errors"].append({"tb": "cross-interpreter check: " + traceback.format_exc()})
    wall_runs = time.time() - t0
    # ---- violations: one report per distinct class, smallest run index first
    classes = {}
    alternates = {}
    for v in sorted(tot["viol"], key=lambda v: (str(v["faults"]), v["i"])):
        if tuple(v["vclass"]) in classes:
            alternates.setdefault(tuple(v["vclass"]), []).append(v)
        classes.setdefault(tuple(v["vclass"]), v)
    nviol = 0
    replays = []
    for v in xviol:
        n0 = len(v["ops"])
        try:
            v["ops"] = cross_shrink(prop, v["ops"])
        except Exception:
            pass
        print("cross-interpreter violation minimised %d -> %d ops" % (n0, len(v["ops"])))
        path = write_replay(prop, v, v["ops"], None, cross=True)
        nviol += 1
        replays.append({"class": v["vclass"], "replay": path, "ops": len(v["ops"]),
                        "original_ops": len(v["ops"]), "seed": v["seed"], "runs_hit": 1})
        print("violation class %s: event digests differ between interpreter instances"
              % "/".join(v["vclass"]))
        print("VIOLATION property=%s replay=%s" % (prop, path), flush=True)
    for vclass, v in list(classes.items())[:6]:
        ops = shrink(prop, v["ops"], vclass, 300 if tier == "quick" else 800, v.get("shadow", True))
        tried = 0
        v0 = v
        while ops is None and alternates.get(vclass) and tried < 6:
            # this instance does not reproduce from its op list (e.g. it hinged on a
            # memory address being reused): take another run that showed the same class
            v = alternates[vclass].pop(0)
            tried += 1
            ops = shrink(prop, v["ops"], vclass, 300 if tier == "quick" else 800, v.get("shadow", True))
        if ops is None:
            v = v0
            # not reproducible from its own op list: does it need the earlier runs of
            # its chunk (state that lives in the library's modules, not in any object)?
            runs = multi_shrink(prop, v.get("prefix") or [], v["ops"], vclass) \
                if v.get("prefix") else None
            if runs is None:
                tot["errors"].append({"tb": "violation did not replay from its op list: %r seed=%d"
                                      % (vclass, v["seed"])})
                continue
            res = _xchunk(prop, runs)
            v2 = dict(v, violation=res[-1][2] if len(res[-1]) > 2 else v["violation"])
            path = write_replay(prop, v2, runs[-1], res[-1][1], runs=runs)
            if not fresh_replay_ok(path):
                tot["errors"].append({"tb": "multi-run replay file does not reproduce in a fresh "
                                            "interpreter: " + path})
                continue
            nviol += 1
            replays.append({"class": list(vclass), "replay": path, "ops": sum(len(r_) for r_ in runs),
                            "original_ops": sum(len(o) for o in v["prefix"]) + len(v["ops"]),
                            "seed": v["seed"], "runs": len(runs),
                            "runs_hit": sum(1 for x in tot["viol"] if tuple(x["vclass"]) == vclass)})
            print("violation class %s seed=%d needs %d earlier run(s) of its chunk in the same "
                  "process (state kept inside the library's modules); minimised to %d runs, %d ops"
                  % ("/".join(vclass), v["seed"], len(v["prefix"]), len(runs),
                     sum(len(r_) for r_ in runs)))
            print("VIOLATION property=%s replay=%s" % (prop, path), flush=True)
            continue
        A.reset()
        rr = R.replay(prop, ops, shadow=v.get("shadow", True))
        v2 = dict(v, violation=rr["violation"])
        path = write_replay(prop, v2, ops, rr["digest"])
        if not fresh_replay_ok(path):
            tot["errors"].append({"tb": "replay file does not reproduce in a fresh interpreter: "
                                  + path})
            continue
        nviol += 1
        replays.append({"class": list(vclass), "replay": path, "ops": len(ops),
                        "original_ops": len(v["ops"]), "seed": v["seed"],
                        "runs_hit": sum(1 for x in tot["viol"] if tuple(x["vclass"]) == vclass)})
        print("violation class %s seed=%d minimised %d -> %d ops"
              % ("/".join(vclass), v["seed"], len(v["ops"]), len(ops)))
        print("VIOLATION property=%s replay=%s" % (prop, path), flush=True)
    for k, n in sorted(tot["known"].items()):
        p_, inv, sig = k.split("|", 2)
        what = next((f.get("what", "") for f in known
                     if finding_matches(f, (p_, inv, sig))), "")
        print("KNOWN-FINDING: property=%s %s/%s hit in %d places: %s" % (p_, inv, sig, n, what))
    wall = time.time() - t0
    if not NO_EVIDENCE:
        write_evidence(prop, tier, master, tot, wall, wall_runs, nviol, replays, n_ff, n_f)
    if tot["errors"]:
        for e in tot["errors"][:5]:
            print("HARNESS-ERROR:", e.get("tb", "")[-2000:], file=sys.stderr)
        if nviol == 0:
            return 2
    planned = n_ff + n_f + sum(min(n, sp) for _, sp, n in strata)
    if tot["runs"] < 0.5 * planned and nviol == 0 and not tot.get("stopped_early"):
        print("HARNESS-ERROR: only %d of %d runs completed" % (tot["runs"], planned),
              file=sys.stderr)
        return 2
    print("%s: %d runs (%d fault-free, %d fault-injecting, %d stratified), %d ops, "
          "%d distinct executions, %.1fs, violations=%d"
          % (prop, tot["runs"], tot["runs_ff"], tot["runs_f"], tot["runs_strat"], tot["ops"],
             len(tot["digests"]), wall, nviol))
    return 1 if nviol else 0


def write_evidence(prop, tier, master, tot, wall, wall_runs, nviol, replays, n_ff, n_f):
    os.makedirs(os.path.join(HERE, "evidence"), exist_ok=True)
    faults = {k.split(":", 1)[1]: v for k, v in tot["stats"].items()
              if k.startswith("fault-fired:")}
    opk = {k[3:]: v for k, v in tot["stats"].items() if k.startswith("op:")}
    nontriv = sum(1 for d, g in tot["digests"].items() if g)
    cov = {
        "evaluations": int(tot["runs"]),
        "distinct_nontrivial": int(nontriv),
        "rule": ("one evaluation = one simulated run: a seeded scheduler interleaves 1-5 simulated "
                 "user tasks over shared real PyFVTool objects for 6-%d ops (fault-free and "
                 "fault-injecting batches separately); distinct = distinct sha256 digest of the "
                 "event log (op JSON + status + bytes of everything written); non-trivial = the "
                 "run executed at least one gating oracle (%s) of this property"
                 % (60 if tier == "quick" else 200, "/".join(GATE_INV[prop]))),
        "samples": tot["samples"][:3] or [{"note": "no sample kept"}],
        "runs_fault_free": int(tot["runs_ff"]),
        "runs_fault_injecting": int(tot["runs_f"]),
        "runs_stratified": int(tot["runs_strat"]),
        "stratified": {f: {"index_space": int(sp), "planned": int(min(n, sp)),
                           "executed": int(tot["strat"].get(f, 0)),
                           "fraction_of_space": round(tot["strat"].get(f, 0) / float(sp), 6)}
                       for f, sp, n in tot.get("strata", [])},
        "stratified_rule": ("stratified runs decode their index into one cell of a finite product "
                            "space (dst/strat.py: hist<k> = grid class x every history of <= k letters "
                            "over a 31-letter edit/solve/fault alphabet on two variables sharing one BC "
                            "object; bc12/bc3 = class x periodic pattern per axis x {D,N,R} per side; "
                            "algebra = {cell,face} x operator x operand kinds x class; builders = "
                            "builder x class; terms = ordered term lists x solver seam x class; steps "
                            "= class x alpha kind x 12 dt decades x scheme); what the stratum leaves "
                            "open is drawn from a PRNG seeded by the index; indices are sampled "
                            "without replacement"),
        "planned_runs": [n_ff, n_f],
        "simulated_steps": int(tot["ops"]),
        "simulated_time": "the system has no clock; simulated time is counted in steps (ops)",
        "runs_per_hour": int(tot["runs"] / max(wall_runs, 1e-9) * 3600),
        "distinct_executions": len(tot["digests"]),
        "states": len(set(json.loads(t)[0].__str__() for t in tot["trans"])) if tot["trans"] else 0,
        "transitions": len(tot["trans"]),
        "transition_measure": "distinct (abstract variable state, op kind, spelling) triples; "
                              "abstract state = (#sharers of its BC object in {1,2,3+}, origin, "
                              "periodic axes, BC edited since last consume, value edited since "
                              "last consume)",
        "oracle_evaluations": dict(tot["oracle"]),
        "ops_by_kind": opk,
        "faults_fired": faults,
        "faults_armed": {k.split(":", 1)[1]: v for k, v in tot["stats"].items()
                         if k.startswith("fault-armed:")},
        "reach_probes": dict(sorted(tot["probes"].items())),
        "required_probes_missing": [q for q in REQUIRED_PROBES.get(prop, [])
                                    if not any(k.startswith(q) and v > 0
                                               for k, v in tot["probes"].items())],
        "other_stats": {k: v for k, v in tot["stats"].items()
                        if not k.startswith(("op:", "fault-"))},
        "notes_other_properties": tot["notes"][:5],
        "known_findings_hit": dict(tot["known"]),
        "violations": replays,
        "components": COMPONENTS,
        "pyfvtool_src": A.src_dir(),
        "harness_errors": len(tot["errors"]),
        "exhaustive": False,
    }
    ev = {"property_id": prop, "tier": tier, "seed": int(master), "level": "exploration",
          "coverage": cov, "wall_s": round(wall, 2), "violations": int(nviol),
          "assumptions": [
              "random search over bounded histories: a clean batch is evidence, not proof",
              "fresh twin trusts the constructors and BoundaryConditions(); scipy is trusted",
              "visible state is read through dst/adapter.py (private attribute names)",
          ]}
    with open(os.path.join(HERE, "evidence", prop + ".json"), "w") as f:
        json.dump(ev, f, indent=1, default=str, sort_keys=True)
    if tier == "thorough":      # kept beside the per-change evidence, which quick runs rewrite
        os.makedirs(os.path.join(HERE, "evidence", "thorough"), exist_ok=True)
        with open(os.path.join(HERE, "evidence", "thorough", prop + ".json"), "w") as f:
            json.dump(ev, f, indent=1, default=str, sort_keys=True)


def _digest_list(prop, n):
    """Digests of n random runs (alternating fault-free / fault-injecting) followed
    by a few stratified runs of every family of this property."""
    out = []
    for i in range(n):
        sd = R.run_seed_for(99, prop, i, i % 2)
        out.append(R.simulate(prop, sd, "quick", bool(i % 2))["digest"])
    for fam, space, _ in S.families(prop, "thorough"):
        for idx in S.sample_indices(99, fam, space, max(2, n // 4)):
            out.append(R.simulate_strat(prop, fam, idx, 99)["digest"])
    return out


def selftest_determinism(n, workers):
    """Every seed: twice in-process, once in a fresh interpreter with
    PYTHONHASHSEED=0 and once with a random hash seed; digests must agree."""
    A.load()
    bad = 0
    tot = 0
    for prop in R.PROPS:
        d1 = _digest_list(prop, n)
        d2 = _digest_list(prop, n)
        outs = []
        for hs in ("0", "random"):
            env = dict(os.environ, PYTHONHASHSEED=hs)
            p = subprocess.run([sys.executable, os.path.join(HERE, "check.py"), "--digests", prop,
                                "--n", str(n)], capture_output=True, text=True, env=env,
                               timeout=1200)
            outs.append(p.stdout.split())
        for i in range(len(d1)):
            tot += 1
            o0 = outs[0][i] if i < len(outs[0]) else "missing"
            o1 = outs[1][i] if i < len(outs[1]) else "missing"
            if not (d1[i] == d2[i] == o0 == o1):
                bad += 1
                print("NONDETERMINISTIC %s run#%d: %s %s %s %s"
                      % (prop, i, d1[i][:12], d2[i][:12], o0[:12], o1[:12]))
    print("determinism selftest: %d runs (random + stratified) x 4 executions, %d mismatches" % (tot, bad))
    return 0 if bad == 0 else 2


def main():
    ap = argparse.ArgumentParser()
    ap.add_argument("--setup", action="store_true")
    ap.add_argument("--property")
    ap.add_argument("--tier", default=os.environ.get("VERIF_TIER", "quick"))
    ap.add_argument("--runs", type=int)
    ap.add_argument("--fault-runs", type=int)
    ap.add_argument("--strat-scale", type=float, default=1.0,
                    help="multiply the number of stratified runs (0 = none)")
    ap.add_argument("--workers", type=int, default=min(16, os.cpu_count() or 1))
    ap.add_argument("--replay")
    ap.add_argument("--selftest")
    ap.add_argument("--digests")
    ap.add_argument("--xchunk", help="internal: execute several op lists in this process, print classes")
    ap.add_argument("--xrun", help="internal: execute the op lists of a JSON file, print event digests")
    ap.add_argument("--n", type=int, default=16)
    ap.add_argument("--no-evidence", action="store_true",
                    help="do not rewrite evidence/<id>.json (used by tools/mutants.py)")
    ap.add_argument("--first", action="store_true",
                    help="stop at the first violation (used by tools/seeded.py and tools/mutants.py; "
                         "implies --no-evidence)")
    a = ap.parse_args()
    global NO_EVIDENCE, STOP_FIRST
    NO_EVIDENCE = a.no_evidence or a.first
    STOP_FIRST = a.first
    if a.setup:
        pf = A.load()
        import numpy
        import scipy
        os.makedirs(os.path.join(HERE, "evidence"), exist_ok=True)
        os.makedirs(os.path.join(HERE, "replays"), exist_ok=True)
        print("setup ok: numpy %s scipy %s pyfvtool %s from %s"
              % (numpy.__version__, scipy.__version__, pf.__version__, A.src_dir()))
        return 0
    if a.xchunk:
        A.load()
        with open(a.xchunk) as f:
            doc = json.load(f)
        print(json.dumps(run_chunk_here(doc["property"], doc["runs"]), default=str))
        return 0
    if a.xrun:
        A.load()
        with open(a.xrun) as f:
            doc = json.load(f)
        print(json.dumps([_event_digests(doc["property"], ops) for ops in doc["ops_list"]]))
        return 0
    if a.digests:
        A.load()
        for d in _digest_list(a.digests, a.n):
            print(d)
        return 0
    if a.selftest == "determinism":
        return selftest_determinism(a.n, a.workers)
    if a.replay:
        A.load()
        known = load_known()
        with open(a.replay) as f:
            doc0 = json.load(f)
        if doc0.get("cross_interpreter"):
            return cross_replay(doc0, a.replay)
        prop, r, same_cls = replay_file(a.replay)
        if r["violation"] and same_cls:
            print("VIOLATION property=%s replay=%s" % (prop, a.replay))
            return 1
        if r["violation"]:
            print("a different violation class occurred: %s" % (r["vclass"],))
            print("VIOLATION property=%s replay=%s" % (prop, a.replay))
            return 1
        print("replay did not reproduce a violation")
        return 0
    if a.property:
        tier = a.tier if a.tier in ("quick", "thorough") else "quick"
        master = int(os.environ.get("VERIF_SEED", DEFAULT_SEED[tier]))
        n_ff, n_f = BUDGET[tier][a.property]
        if a.runs is not None:
            n_ff = a.runs
        if a.fault_runs is not None:
            n_f = a.fault_runs
        try:
            return check_property(a.property, tier, master, n_ff, n_f, a.workers, a.strat_scale)
        except Exception:
            traceback.print_exc()
            return 2
    ap.print_help()
    return 2


if __name__ == "__main__":
    sys.exit(main())
