import copy
import pickle
import sys
import warnings

import numpy as np
from scipy.sparse import issparse
from scipy.sparse.linalg import spsolve

import pyfvtool as pf

warnings.simplefilter("ignore")
RNG = np.random.default_rng(20260924)
NCHECK = [0]


def ok(cond, msg):
    NCHECK[0] += 1
    if not cond:
        raise AssertionError(msg)


# ----------------------------------------------------------------------------
# meshes: all 9 grid classes, uniform and non-uniform (one with integer faces)
# ----------------------------------------------------------------------------

def _faces(n, lo, hi, integer=False):
    if integer:
        return np.cumsum(np.arange(1, n+2)).astype(int) + int(lo)
    w = RNG.uniform(0.5, 1.5, n)
    f = np.hstack([0.0, np.cumsum(w)])
    return lo + (hi-lo)*f/f[-1]


def meshes():
    out = []
    out.append(("Grid1D-u", pf.Grid1D(6, 2.0)))
    out.append(("Grid1D-n", pf.Grid1D(_faces(5, 0.0, 2.0))))
    out.append(("Grid1D-int", pf.Grid1D(_faces(5, 0, 0, integer=True))))
    out.append(("Cyl1D-u", pf.CylindricalGrid1D(5, 1.5)))
    out.append(("Cyl1D-n", pf.CylindricalGrid1D(_faces(5, 0.2, 1.5))))
    out.append(("Sph1D-u", pf.SphericalGrid1D(5, 1.5)))
    out.append(("Sph1D-n", pf.SphericalGrid1D(_faces(4, 0.3, 1.5))))
    out.append(("Grid2D-u", pf.Grid2D(4, 3, 1.0, 2.0)))
    out.append(("Grid2D-n", pf.Grid2D(_faces(3, 0, 1), _faces(4, 0, 2))))
    out.append(("Cyl2D-u", pf.CylindricalGrid2D(3, 4, 1.0, 2.0)))
    out.append(("Cyl2D-n", pf.CylindricalGrid2D(_faces(4, 0.1, 1), _faces(3, 0, 2))))
    out.append(("Polar2D-u", pf.PolarGrid2D(3, 5, 1.0, 2*np.pi)))
    out.append(("Polar2D-n", pf.PolarGrid2D(_faces(3, 0.2, 1), _faces(4, 0, 2*np.pi))))
    out.append(("Grid3D-u", pf.Grid3D(3, 2, 4, 1.0, 2.0, 3.0)))
    out.append(("Grid3D-n", pf.Grid3D(_faces(2, 0, 1), _faces(3, 0, 2), _faces(3, 0, 3))))
    out.append(("Cyl3D-u", pf.CylindricalGrid3D(3, 4, 2, 1.0, 2*np.pi, 1.0)))
    out.append(("Cyl3D-n", pf.CylindricalGrid3D(_faces(2, 0.2, 1), _faces(4, 0, 2*np.pi), _faces(3, 0, 1))))
    out.append(("Sph3D-u", pf.SphericalGrid3D(3, 3, 4, 1.0, np.pi, 2*np.pi)))
    out.append(("Sph3D-n", pf.SphericalGrid3D(_faces(2, 0.3, 1), _faces(3, 0.2, np.pi-0.2), _faces(4, 0, 2*np.pi))))
    return out


def ndim(m):
    return len(m.dims)


def ref_numbers(m):
    """independent reference for the cell numbering (row-major, ghost incl.)"""
    shape = tuple(int(n)+2 for n in m.dims)
    return np.arange(int(np.prod(shape))).reshape(shape)


def mesh_snapshot(m):
    parts = [np.asarray(m.dims).tobytes(), np.asarray(m.corners).tobytes(),
             np.asarray(m.edges).tobytes()]
    for prop in (m.cellsize, m.cellcenters, m.facecenters):
        for a in (prop._x, prop._y, prop._z):
            parts.append(a.tobytes())
            parts.append(str(a.dtype).encode())
        parts.append(repr(sorted(prop.coordlabels.items())).encode())
    return b"|".join(parts)


def faces_of(BC, m):
    f = [BC.left, BC.right]
    if ndim(m) >= 2:
        f += [BC.bottom, BC.top]
    if ndim(m) == 3:
        f += [BC.back, BC.front]
    return f


def bc_snapshot(BC, m):
    parts = []
    for f in faces_of(BC, m):
        parts += [np.asarray(f.a).tobytes(), np.asarray(f.b).tobytes(),
                  np.asarray(f.c).tobytes(), bytes([bool(f.periodic)])]
    return b"|".join(parts)


def cv_snapshot(phi):
    return np.asarray(phi._value).tobytes()


def fv_snapshot(u):
    return b"|".join(np.asarray(a).tobytes() for a in (u._xvalue, u._yvalue, u._zvalue))


def result_bytes(r):
    if isinstance(r, tuple):
        return b"#".join(result_bytes(x) for x in r)
    if issparse(r):
        r = r.tocsr().copy()
        r.sum_duplicates()
        r.sort_indices()
        return b"M" + r.indptr.tobytes() + r.indices.tobytes() + r.data.tobytes()
    if isinstance(r, pf.FaceVariable):
        return b"F" + fv_snapshot(r)
    if isinstance(r, pf.CellVariable):
        return b"C" + cv_snapshot(r)
    return b"A" + np.asarray(r).tobytes()


# ----------------------------------------------------------------------------
# boundary conditions: Dirichlet / Neumann / Robin with face-wise varying
# arrays on the different sides, periodic on one axis (flag on ONE side only)
# ----------------------------------------------------------------------------

def radial(m):
    return type(m) is not pf.Grid1D and type(m) is not pf.Grid2D \
        and type(m) is not pf.Grid3D


def periodic_axis(m):
    """axis (0,1,2) that may meaningfully be periodic for this mesh, or None"""
    t = type(m)
    if t in (pf.Grid1D, pf.Grid2D, pf.Grid3D):
        return 0
    if t in (pf.PolarGrid2D, pf.CylindricalGrid3D):
        return 1
    if t is pf.SphericalGrid3D:
        return 2
    return None


def set_bcs(BC, m, variant=0, periodic=False, scale=1.0):
    fs = faces_of(BC, m)
    rng = np.random.default_rng(1234 + variant)
    for k, f in enumerate(fs):
        kind = (k + variant) % 3
        shp = f.a.shape
        if kind == 0:      # Dirichlet, face-wise varying value
            f.a[:] = 0.0
            f.b[:] = scale*1.0
            f.c[:] = scale*(1.0 + rng.uniform(0, 1, f.c.shape))
        elif kind == 1:    # Neumann
            f.a[:] = scale*1.0
            f.b[:] = 0.0
            f.c[:] = scale*rng.uniform(-0.3, 0.3, f.c.shape)
        else:              # Robin with face-wise varying coefficient arrays
            f.a[:] = scale*rng.uniform(0.5, 1.0, shp)*(1 if k % 2 else -1)
            f.b[:] = scale*rng.uniform(1.0, 2.0, shp)
            f.c[:] = scale*rng.uniform(0.5, 1.5, f.c.shape)
    if periodic:
        ax = periodic_axis(m)
        if ax is not None:
            # flag on one side only: lower side for even variants, upper for odd
            fs[2*ax + (variant % 2)].periodic = True
    return BC


def make_bc(m, **kw):
    return set_bcs(pf.BoundaryConditions(m), m, **kw)


def interior(m, seed=0, integer=False):
    rng = np.random.default_rng(77 + seed)
    if integer:
        return rng.integers(1, 9, size=tuple(m.dims))
    return rng.uniform(0.5, 2.0, size=tuple(m.dims))


# ----------------------------------------------------------------------------
# C03: the reported ghost values satisfy the boundary relation / wrap
# ----------------------------------------------------------------------------

def check_boundary_values(phi, m, tag):
    BC = phi.BCs
    G = ref_numbers(m)
    v = np.asarray(phi._value, dtype=float)
    fs = faces_of(BC, m)
    nd = ndim(m)
    inner = tuple(slice(1, -1) for _ in range(nd))
    per = [bool(fs[2*d].periodic or fs[2*d+1].periodic) for d in range(nd)]
    M, rhs = pf.boundaryConditionsTerm(BC)
    res = M @ v.ravel() - rhs
    scale = 1.0 + np.abs(v).max()*abs(M).max()
    for d in range(nd):
        lo = list(inner); lo[d] = 0
        hi = list(inner); hi[d] = -1
        first = list(inner); first[d] = 1
        last = list(inner); last[d] = -2
        if per[d]:
            ok(np.array_equal(v[tuple(lo)], v[tuple(last)]) and
               np.array_equal(v[tuple(hi)], v[tuple(first)]),
               f"{tag}: periodic wrap broken on axis {d}")
        else:
            for sl in (lo, hi):
                rows = G[tuple(sl)].ravel()
                r = np.abs(res[rows]).max()
                ok(r <= 1e-9*scale, f"{tag}: boundary relation violated on axis {d}: {r}")
            # explicit form on Cartesian-like axes (no angular factor)
            if not (d >= 1 and type(m) in (pf.PolarGrid2D, pf.CylindricalGrid3D,
                                         pf.SphericalGrid3D) and
                    not (type(m) is pf.CylindricalGrid3D and d == 2)):
                h = (m.cellsize._x, m.cellsize._y, m.cellsize._z)[d]
                for side, (g, i, hh) in enumerate(((lo, first, h[0]), (hi, last, h[-1]))):
                    f = fs[2*d+side]
                    vg, vi = v[tuple(g)], v[tuple(i)]
                    diff = (vi-vg)/hh if side == 0 else (vg-vi)/hh
                    a = np.asarray(f.a).reshape(vg.shape) if np.size(f.a) == vg.size else np.asarray(f.a)
                    b = np.asarray(f.b).reshape(vg.shape) if np.size(f.b) == vg.size else np.asarray(f.b)
                    c = np.asarray(f.c).reshape(vg.shape) if np.size(f.c) == vg.size else np.asarray(f.c)
                    rr = np.abs(a*diff + b*0.5*(vg+vi) - c).max()
                    ok(rr <= 1e-9*scale, f"{tag}: a*dphi/dn+b*phi=c violated axis {d} side {side}: {rr}")
    # plot profile carries the face averages in its boundary entries
    prof = phi.plotprofile()[-1]
    if nd == 1:
        ok(prof[0] == 0.5*(v[0]+v[1]) and prof[-1] == 0.5*(v[-1]+v[-2]),
           f"{tag}: plotprofile boundary entries")
        ok(np.array_equal(prof[1:-1], v[1:-1]), f"{tag}: plotprofile interior")
    else:
        ok(np.array_equal(prof[inner], v[inner]), f"{tag}: plotprofile interior")
        for d in range(nd):
            lo = list(inner); lo[d] = 0
            first = list(inner); first[d] = 1
            ok(np.allclose(prof[tuple(lo)], 0.5*(v[tuple(lo)]+v[tuple(first)]), rtol=1e-14, atol=0),
               f"{tag}: plotprofile face entries")


# ----------------------------------------------------------------------------
# C15: builders are pure and deterministic
# ----------------------------------------------------------------------------

def all_builders(m, phi, u, D, alpha, FL):
    b = {
        "diffusionTerm": lambda: pf.diffusionTerm(D),
        "convectionTerm": lambda: pf.convectionTerm(u),
        "convectionUpwindTerm": lambda: pf.convectionUpwindTerm(u),
        "convectionTVDupwindRHSTerm": lambda: pf.convectionTVDupwindRHSTerm(u, phi, FL),
        "linearSourceTerm": lambda: pf.linearSourceTerm(alpha),
        "constantSourceTerm": lambda: pf.constantSourceTerm(alpha),
        "transientTerm": lambda: pf.transientTerm(phi, 0.1, alpha),
        "transientTerm-scalar": lambda: pf.transientTerm(phi, 0.1),
        "gradientTerm": lambda: pf.gradientTerm(phi),
        "divergenceTerm": lambda: pf.divergenceTerm(u),
        "boundaryConditionsTerm": lambda: pf.boundaryConditionsTerm(phi.BCs),
        "linearMean": lambda: pf.linearMean(phi),
        "arithmeticMean": lambda: pf.arithmeticMean(phi),
        "geometricMean": lambda: pf.geometricMean(phi),
        "harmonicMean": lambda: pf.harmonicMean(phi),
        "upwindMean": lambda: pf.upwindMean(phi, u),
        "tvdMean": lambda: pf.tvdMean(phi, u, FL),
        "cellLocations": lambda: pf.cellLocations(m),
        "faceLocations": lambda: pf.faceLocations(m),
        "cell_numbers": lambda: m.cell_numbers(),
        "cellvolume": lambda: m.cellvolume,
    }
    return b


def velocity(m, seed=0):
    rng = np.random.default_rng(5 + seed)
    u = pf.FaceVariable(m, 1.0)
    u._xvalue = rng.uniform(-1, 1, u._xvalue.shape)
    if ndim(m) >= 2:
        u._yvalue = rng.uniform(-1, 1, u._yvalue.shape)
    if ndim(m) == 3:
        u._zvalue = rng.uniform(-1, 1, u._zvalue.shape)
    return u


def check_purity(name, m):
    BC = make_bc(m, variant=1)
    phi = pf.CellVariable(m, interior(m, 1), BC)
    alpha = pf.CellVariable(m, interior(m, 2))
    u = velocity(m)
    D = pf.harmonicMean(pf.CellVariable(m, interior(m, 3)))
    FL = pf.fluxLimiter("SUPERBEE")
    builders = all_builders(m, phi, u, D, alpha, FL)

    def state():
        return (mesh_snapshot(m), cv_snapshot(phi), cv_snapshot(alpha),
                fv_snapshot(u), fv_snapshot(D), bc_snapshot(BC, m),
                result_bytes(phi._BCsTerm), bool(phi.value.modified),
                bool(BC.modified))

    s0 = state()
    cs_x = m.cellsize._x.copy()
    first = {}
    for key, fn in builders.items():
        try:
            r1 = fn()
        except Exception as e:            # not implemented for this mesh type
            first[key] = (type(e), str(e))
            try:
                fn()
                ok(False, f"{name}/{key}: raised once, then not")
            except Exception as e2:
                ok((type(e2), str(e2)) == first[key], f"{name}/{key}: exception changed")
            ok(state() == s0, f"{name}/{key}: inputs modified by failing call")
            continue
        ok(state() == s0, f"{name}/{key}: inputs modified")
        r2 = fn()
        ok(result_bytes(r1) == result_bytes(r2), f"{name}/{key}: not deterministic")
        first[key] = result_bytes(r1)
        # in-place edit of a returned object must not reach the mesh or a
        # later result
        for obj in (r1 if isinstance(r1, tuple) else (r1,)):
            try:
                if issparse(obj):
                    obj.data[:] = -7.0
                    obj.indices[:] = 0
                elif isinstance(obj, pf.FaceVariable):
                    for a in (obj._xvalue, obj._yvalue, obj._zvalue):
                        a[...] = -7.0
                elif isinstance(obj, pf.CellVariable):
                    obj._value[...] = -7.0
                elif isinstance(obj, np.ndarray):
                    obj[...] = -7
            except ValueError:
                pass                       # read-only result: cannot be edited
        if key == "cellvolume" and type(m) is pf.Grid1D:
            # known: Grid1D.cellvolume is a view of cellsize; undo the edit
            m.cellsize._x[...] = cs_x
        ok(state() == s0, f"{name}/{key}: editing the result changed the inputs")
        r3 = fn()
        ok(result_bytes(r3) == first[key], f"{name}/{key}: editing a result changed a later result")
    # second sweep in a different order: results do not depend on call history
    for key in reversed(list(builders)):
        if isinstance(first[key], tuple):
            continue
        ok(result_bytes(builders[key]()) == first[key], f"{name}/{key}: depends on call history")
    # a second, freshly built equal mesh gives bit-identical terms
    return first


# ----------------------------------------------------------------------------
# solver histories compared with freshly built variables
# ----------------------------------------------------------------------------

def fresh_like(phi, m, bc_kw):
    """new variable with the same interior values and equal, unshared BCs"""
    return pf.CellVariable(m, np.array(phi.value, dtype=float), make_bc(m, **bc_kw))


def terms_for(m, phi_old, D, u, src, dt):
    return [pf.transientTerm(phi_old, dt, 1.0),
            -pf.diffusionTerm(D),
            pf.convectionUpwindTerm(u),
            pf.constantSourceTerm(src)]


def close(a, b, tol=1e-11):
    a = np.asarray(a, dtype=float); b = np.asarray(b, dtype=float)
    return np.all(np.abs(a-b) <= tol*(1.0+np.abs(b)))


class Boom(RuntimeError):
    pass


def failing_solver(M, RHS):
    raise Boom("external solver failed")


def check_histories(name, m, periodic):
    bc_kw = dict(variant=2, periodic=periodic)
    dt = 0.05
    D = pf.arithmeticMean(pf.CellVariable(m, interior(m, 4)))
    u = velocity(m, 3)
    src = pf.CellVariable(m, interior(m, 5))
    st_in = (fv_snapshot(D), fv_snapshot(u), cv_snapshot(src), mesh_snapshot(m))

    BC = make_bc(m, **bc_kw)
    phi = pf.CellVariable(m, interior(m, 6, integer=True), BC)
    check_boundary_values(phi, m, f"{name}: construction")

    # --- implicit time loop on one variable, against fresh variables ---------
    ref = fresh_like(phi, m, bc_kw)
    for step in range(3):
        terms = terms_for(m, phi, D, u, src, dt)
        tb = [result_bytes(t) for t in terms]
        ret = pf.solvePDE(phi, terms)
        ok(ret is phi, f"{name}: solvePDE must return its solution variable")
        ok([result_bytes(t) for t in terms] == tb, f"{name}: solvePDE modified the terms")
        # the same terms can be reused: second solve from the same old state
        again = fresh_like(ref, m, bc_kw)
        pf.solvePDE(again, terms)
        ok(close(again._value, phi._value), f"{name}: reused terms give another result")
        # reference: everything rebuilt from scratch
        ref = fresh_like(ref, m, bc_kw)
        pf.solvePDE(ref, terms_for(m, ref, D, u, src, dt))
        ok(close(ref._value, phi._value), f"{name}: step {step} differs from fresh variable")
        check_boundary_values(phi, m, f"{name}: solvePDE step {step}")
        ok(not phi.value.modified and not phi.BCs.modified, f"{name}: tracking not clean after solve")
        Mbc, rbc = pf.boundaryConditionsTerm(phi.BCs)
        if getattr(phi, "_BCsTerm", None) is not None:
            ok(result_bytes(phi._BCsTerm) == result_bytes((Mbc, rbc)), f"{name}: cached BC term out of date")

    # --- edit interior + BCs, apply_BCs ---------------------------------------
    phi.value = interior(m, 8)
    phi.BCs.right.c[:] = 0.75
    phi.apply_BCs()
    bc_kw2 = dict(bc_kw)
    refe = fresh_like(phi, m, bc_kw2); refe.BCs.right.c[:] = 0.75; refe.apply_BCs()
    ok(close(refe._value, phi._value), f"{name}: apply_BCs after edit")
    check_boundary_values(phi, m, f"{name}: apply_BCs")

    # --- failing external solver, then retry -----------------------------------
    before = cv_snapshot(phi)
    terms = terms_for(m, phi, D, u, src, dt)
    try:
        pf.solvePDE(phi, terms, externalsolver=failing_solver)
        ok(False, f"{name}: failing solver must propagate")
    except Boom:
        pass
    ok(cv_snapshot(phi) == before, f"{name}: failed solve changed the variable")
    check_boundary_values(phi, m, f"{name}: after failed solve")
    pf.solvePDE(phi, terms, externalsolver=spsolve)
    pf.solvePDE(refe, terms_for(m, refe, D, u, src, dt))
    ok(close(refe._value, phi._value), f"{name}: retry after failure differs")

    # --- explicit step, result fed to the implicit solver ------------------------
    RHS = pf.constantSourceTerm(src) - pf.convectionUpwindTerm(u) @ phi._value.ravel()
    RHS0 = RHS.copy(); b0 = cv_snapshot(phi)
    phie = pf.solveExplicitPDE(phi, 1e-3, RHS)
    ok(cv_snapshot(phi) == b0 and np.array_equal(RHS, RHS0), f"{name}: solveExplicitPDE modified its inputs")
    ok(phie is not phi and not np.shares_memory(phie._value, phi._value), f"{name}: explicit result aliases input")
    check_boundary_values(phie, m, f"{name}: solveExplicitPDE")
    refx = pf.CellVariable(m, np.array(phie.value), make_bc(m, **bc_kw)); refx.BCs.right.c[:] = 0.75; refx.apply_BCs()
    ok(close(refx._value, phie._value), f"{name}: explicit result ghost cells")
    pf.solvePDE(phie, terms_for(m, phie, D, u, src, dt))
    pf.solvePDE(refx, terms_for(m, refx, D, u, src, dt))
    ok(close(refx._value, phie._value), f"{name}: explicit -> implicit differs from fresh")
    check_boundary_values(phie, m, f"{name}: explicit -> implicit")

    # --- solveMatrixPDE modifies nothing -----------------------------------------
    Mb, rb = pf.boundaryConditionsTerm(phi.BCs)
    Mt, rt = pf.transientTerm(phi, dt, 1.0)
    Mfull = Mb + Mt - pf.diffusionTerm(D); rfull = rb + rt
    sb = (result_bytes(Mfull), rfull.tobytes(), mesh_snapshot(m))
    new = pf.solveMatrixPDE(m, Mfull, rfull)
    ok((result_bytes(Mfull), rfull.tobytes(), mesh_snapshot(m)) == sb, f"{name}: solveMatrixPDE modified inputs")
    chk = pf.CellVariable(m, np.array(phi.value), make_bc(m, **bc_kw)); chk.BCs.right.c[:] = 0.75; chk.apply_BCs()
    pf.solvePDE(chk, [(Mt, rt), -pf.diffusionTerm(D)])
    ok(close(chk.value, new.value, 1e-10), f"{name}: solveMatrixPDE vs solvePDE")

    # --- two variables sharing one BC object ----------------------------------------
    shared = make_bc(m, **bc_kw)
    p1 = pf.CellVariable(m, interior(m, 9), shared)
    p2 = pf.CellVariable(m, interior(m, 10), shared)
    pf.solvePDE(p1, terms_for(m, p1, D, u, src, dt))
    shared.left.c[:] = 0.25 if not shared.left.periodic else shared.left.c
    shared.right.b[:] = 3.0*np.asarray(shared.right.b) + 0.5
    for p in (p1, p2):
        q = pf.CellVariable(m, np.array(p.value), make_bc(m, **bc_kw))
        q.BCs.left.c[:] = shared.left.c; q.BCs.right.b[:] = shared.right.b
        pf.solvePDE(p, terms_for(m, p, D, u, src, dt))
        pf.solvePDE(q, terms_for(m, q, D, u, src, dt))
        ok(close(q._value, p._value), f"{name}: shared BC object, stale boundary data")
        check_boundary_values(p, m, f"{name}: shared BC")

    # --- deepcopy / copy give independent, equivalent variables ---------------------
    dc = copy.deepcopy(p1); cp = p1.copy()
    keep = cv_snapshot(p1)
    for other in (dc, cp):
        ok(cv_snapshot(other) == keep, f"{name}: copy not equivalent")
        ok(not np.shares_memory(other._value, p1._value), f"{name}: copy aliases")
        other.value = 0.0; other.BCs.right.c[:] = 9.0
        pf.solvePDE(other, terms_for(m, other, D, u, src, dt))
    ok(cv_snapshot(p1) == keep, f"{name}: editing a copy changed the original")
    dc2 = copy.deepcopy(p2)
    pf.solvePDE(dc2, terms_for(m, dc2, D, u, src, dt)); pf.solvePDE(p2, terms_for(m, p2, D, u, src, dt))
    ok(close(dc2._value, p2._value, 1e-13), f"{name}: deepcopy not equivalent under solve")

    # --- scaling (a,b,c) changes nothing -----------------------------------------------
    sA = pf.CellVariable(m, interior(m, 11), make_bc(m, **bc_kw))
    sB = pf.CellVariable(m, interior(m, 11), make_bc(m, scale=-37.5, **bc_kw))
    ok(close(sA._value, sB._value, 1e-10), f"{name}: ghost values depend on BC scaling")
    pf.solvePDE(sA, terms_for(m, sA, D, u, src, dt)); pf.solvePDE(sB, terms_for(m, sB, D, u, src, dt))
    ok(close(sA._value, sB._value, 1e-9), f"{name}: solution depends on BC scaling")

    ok((fv_snapshot(D), fv_snapshot(u), cv_snapshot(src), mesh_snapshot(m)) == st_in,
       f"{name}: coefficient variables / mesh modified by the solve histories")


def check_analytic_1d():
    m = pf.Grid1D(40, 1.0)
    BC = pf.BoundaryConditions(m)
    BC.left.fixedValue(1.0); BC.right.fixedValue(3.0)
    phi = pf.CellVariable(m, 0.0, BC)
    pf.solvePDE(phi, [-pf.diffusionTerm(pf.FaceVariable(m, 1.0))])
    x, p = phi.plotprofile()
    ok(np.allclose(p, 1.0+2.0*x, atol=1e-10), "1D Laplace profile")


def run_common():
    ms = meshes()
    for name, m in ms:
        snap = mesh_snapshot(m)
        check_purity(name, m)
        ok(mesh_snapshot(m) == snap, f"{name}: mesh changed by builders")
    # terms from two equal but separately built meshes are bit-identical
    a = dict(meshes()[7:8] + meshes()[13:14]); b = dict(meshes()[7:8] + meshes()[13:14])
    for k in a:
        Da = pf.FaceVariable(a[k], 1.5); Db = pf.FaceVariable(b[k], 1.5)
        ok(result_bytes(pf.diffusionTerm(Da)) == result_bytes(pf.diffusionTerm(Db)), f"{k}: equal meshes, different terms")
    for name, m in ms:
        check_histories(name, m, periodic=False)
        if periodic_axis(m) is not None:
            check_histories(name + "/periodic", m, periodic=True)
    # radial periodic flags are still rejected with ValueError
    for cls, args in ((pf.CylindricalGrid1D, (4, 1.0)), (pf.SphericalGrid1D, (4, 1.0)),
                      (pf.CylindricalGrid2D, (3, 3, 1.0, 1.0))):
        mm = cls(*args); B = pf.BoundaryConditions(mm); B.left.periodic = True
        try:
            pf.boundaryConditionsTerm(B)
            ok(False, "radial periodic must raise")
        except ValueError:
            ok(True, "")
    check_analytic_1d()


# ----------------------------------------------------------------------------
# specific to refactoring 3: corner / edge cell numbers of the meshes
# ----------------------------------------------------------------------------

def ref_corners_edges(m):
    """the defining expressions, evaluated on the full numbering"""
    G = ref_numbers(m)
    if ndim(m) == 1:
        return np.array([1]), np.array([1])
    if ndim(m) == 2:
        return G[[0, -1, 0, -1], [0, 0, -1, -1]], np.array([1])
    corners = G[np.ix_((0, -1), (0, -1), (0, -1))].flatten()
    edges = np.hstack([G[0, [0, -1], 1:-1].flatten(),
                       G[-1, [0, -1], 1:-1].flatten(),
                       G[0, 1:-1, [0, -1]].flatten(),
                       G[-1, 1:-1, [0, -1]].flatten(),
                       G[1:-1, 0, [0, -1]].flatten(),
                       G[1:-1, -1, [0, -1]].flatten()])
    return corners, edges


def check_corners_edges(name, m):
    c, e = ref_corners_edges(m)
    for what, got, exp in (("corners", m.corners, c), ("edges", m.edges, e)):
        ok(isinstance(got, np.ndarray) and got.ndim == 1 and got.shape == exp.shape
           and np.array_equal(got, exp), f"{name}: {what} {got} != {exp}")
        ok(got.dtype.kind == "i" and got.dtype.itemsize == exp.dtype.itemsize, f"{name}: {what} dtype {got.dtype}")
        ok(got.flags.writeable, f"{name}: {what} must be an ordinary writable array")
    ok(np.array_equal(m.cell_numbers(), ref_numbers(m)), f"{name}: cell_numbers")
    if ndim(m) >= 2:
        # the rows of corner and edge cells in the boundary system are decoupled
        # from everything else: diagonal entry only, zero right-hand side
        BC = make_bc(m, variant=1)
        M, rhs = pf.boundaryConditionsTerm(BC)
        Md = M.toarray() if M.shape[0] <= 2500 else None
        useless = np.hstack([c, e]) if ndim(m) == 3 else c
        ok(np.all(rhs[useless] == 0.0), f"{name}: rhs at corners/edges")
        if Md is not None:
            for r in useless:
                off = np.delete(Md[r], r)
                ok(Md[r, r] != 0.0 and not off.any(), f"{name}: row {r} of a corner/edge cell")
            # and all other ghost rows are boundary-condition rows
            G = ref_numbers(m)
            ghost = np.ones(G.shape, bool); ghost[tuple(slice(1, -1) for _ in G.shape)] = False
            rows_with_entries = np.flatnonzero(np.abs(Md).sum(axis=1))
            ok(np.array_equal(rows_with_entries, np.sort(G[ghost])), f"{name}: ghost rows of BC matrix")


def run_specific():
    for name, m in meshes():
        check_corners_edges(name, m)
    # many shapes, including single-cell directions, all 2D and 3D classes,
    # both ways of construction, different integer types for the cell counts
    for Nx in (1, 2, 3, 5):
        for Ny in (1, 2, 4):
            for cls in (pf.Grid2D, pf.CylindricalGrid2D, pf.PolarGrid2D):
                check_corners_edges(f"{cls.__name__}({Nx},{Ny})", cls(Nx, Ny, 1.0, 2.0))
                check_corners_edges(f"{cls.__name__}(faces {Nx},{Ny})",
                                    cls(np.linspace(0.1, 1, Nx+1)**2, np.linspace(0, 2, Ny+1)))
            for Nz in (1, 2, 3, 6):
                for cls in (pf.Grid3D, pf.CylindricalGrid3D, pf.SphericalGrid3D):
                    check_corners_edges(f"{cls.__name__}({Nx},{Ny},{Nz})", cls(Nx, Ny, Nz, 1.0, 2.0, 3.0))
                    check_corners_edges(f"{cls.__name__}(faces {Nx},{Ny},{Nz})",
                                        cls(np.linspace(0.1, 1, Nx+1), np.linspace(0.1, 2, Ny+1)**2,
                                            np.linspace(0, 3, Nz+1)))
    for it in (int, np.int64, np.intp):
        check_corners_edges(f"Grid2D {it.__name__}", pf.Grid2D(it(3), it(4), 1.0, 1.0))
        check_corners_edges(f"Grid3D {it.__name__}", pf.Grid3D(it(3), it(4), it(2), 1.0, 1.0, 1.0))
    # a larger 3D mesh: corner/edge cells stay out of the solution
    m = pf.Grid3D(12, 9, 10, 1.0, 1.0, 1.0)
    check_corners_edges("Grid3D 12x9x10", m)
    BC = pf.BoundaryConditions(m)
    BC.left.fixedValue(1.0); BC.right.fixedValue(0.0)
    phi = pf.CellVariable(m, 0.0, BC)
    pf.solvePDE(phi, [-pf.diffusionTerm(pf.FaceVariable(m, 1.0))])
    x = m.cellcenters.x[:, np.newaxis, np.newaxis]
    ok(np.allclose(phi.value, 1.0-x + 0*phi.value, atol=1e-10), "3D Laplace solution")
    v = phi._value.ravel()
    ok(np.all(v[m.corners] == 0.0) and np.all(v[m.edges] == 0.0), "corner/edge cells of the solution")
    check_boundary_values(phi, m, "Grid3D 12x9x10")
    # 1D face-location construction (cell sizes through the shared helper)
    for cls in (pf.Grid1D, pf.CylindricalGrid1D, pf.SphericalGrid1D):
        for f in (np.array([0.5, 1.0, 2.5, 3.0]), np.array([1, 2, 4, 8, 9]), np.array([0.0, 1.0])):
            mm = cls(f)
            exp = np.hstack([f[1]-f[0], f[1:]-f[:-1], f[-1]-f[-2]])
            got = mm.cellsize._x
            ok(got.dtype == exp.dtype and np.array_equal(got, exp) and got.flags.writeable, f"{cls.__name__}: cell sizes")
            ok(mm.facecenters._x is f, f"{cls.__name__}: face locations")
            ok(np.array_equal(mm.cellcenters._x, 0.5*(f[1:]+f[:-1])), f"{cls.__name__}: centers")
            ok(mm.dims.dtype == np.array([1], dtype=int).dtype and mm.dims[0] == f.size-1, f"{cls.__name__}: dims")
        try:
            cls([0.0, 1.0, 2.0])
            ok(False, "list of faces must raise")
        except AttributeError:
            pass


if __name__ == "__main__":
    run_common()
    run_specific()
    print(f"check.py: all {NCHECK[0]} checks passed")
    sys.exit(0)
