"""
check.py for refactoring 1 (cell.py: boundary conditions of derived CellVariables)

Standalone:   PYTHONPATH=<tree>/src /venv/bin/python check.py
Exits 0 when every assertion holds (clean tree and patched tree).

Exercises, through the public API and on all 9 grid classes (uniform and
non-uniform), every CellVariable operator and reflected operator, funceval /
celleval and copy():
  * interior values versus plain numpy evaluation (variable, scalar, numpy
    scalar, ndarray operands; integer arrays)
  * operands untouched (values, ghost cells, BC coefficients, flags)
  * results carry value-equal but independent boundary conditions of the
    left-most variable operand, ghost cells consistent with them
  * cross-modification probes in both directions (BC coefficients, periodic
    flags, whole-face replacement, values), judged by later solvePDE results
    against freshly built variables
  * operands sharing one BoundaryConditions object, operands with edited but
    not yet applied BCs / values, retries after a failing external solver
  * copy(): equal (ghost layer included, also when stale), fully independent;
    copy.deepcopy and pickle of derived variables
"""
import sys
import copy
import pickle
import operator
import warnings
import numpy as np
import pyfvtool as pf

warnings.simplefilter("ignore")
rng = np.random.default_rng(987654321)
NCHECK = [0]
FACES = ("left", "right", "bottom", "top", "back", "front")


def ok(cond, msg):
    NCHECK[0] += 1
    if not cond:
        print("FAILED:", msg)
        sys.exit(1)


def close(a, b, msg, rtol=1e-12):
    a = np.asarray(a, dtype=float)
    b = np.asarray(b, dtype=float)
    ok(a.shape == b.shape, msg + " (shape %s vs %s)" % (a.shape, b.shape))
    fin = np.isfinite(b)
    ok(np.array_equal(fin, np.isfinite(a)), msg + " (finite pattern)")
    scale = max(1.0, float(np.max(np.abs(b[fin]))) if fin.any() else 1.0)
    err = float(np.max(np.abs(a[fin] - b[fin]))) if fin.any() else 0.0
    ok(err <= rtol * scale, msg + " (err %.3e, scale %.3e)" % (err, scale))


def faces(n, lo, hi):
    w = 0.5 + rng.random(n)
    x = np.concatenate([[0.0], np.cumsum(w)])
    return lo + (hi - lo) * x / x[-1]


def meshes():
    out = []
    out.append(("Grid1D-u", pf.Grid1D(5, 1.5)))
    out.append(("Grid1D-n", pf.Grid1D(faces(4, 0.0, 2.0))))
    out.append(("CylindricalGrid1D-n", pf.CylindricalGrid1D(faces(5, 0.3, 2.0))))
    out.append(("SphericalGrid1D-u", pf.SphericalGrid1D(4, 1.2)))
    out.append(("Grid2D-n", pf.Grid2D(faces(3, 0, 1), faces(4, 0, 2))))
    out.append(("CylindricalGrid2D-u", pf.CylindricalGrid2D(3, 4, 1.0, 2.0)))
    out.append(("PolarGrid2D-n", pf.PolarGrid2D(faces(3, 0.2, 1), faces(4, 0, 1.5))))
    out.append(("Grid3D-n", pf.Grid3D(faces(2, 0, 1), faces(3, 0, 1), faces(3, 0, 2))))
    out.append(("CylindricalGrid3D-u", pf.CylindricalGrid3D(2, 4, 3, 1.0, 2 * np.pi, 1.0)))
    out.append(("SphericalGrid3D-n", pf.SphericalGrid3D(faces(3, 0.3, 1), faces(2, 0.4, 2.0), faces(3, 0, 3.0))))
    return out


def ndim(m):
    return len(m.dims)


def used_faces(m):
    return FACES[:2 * ndim(m)]


def make_bc(m, kind):
    bc = pf.BoundaryConditions(m)
    if kind == "default":
        return bc
    for i, nm in enumerate(used_faces(m)):
        f = getattr(bc, nm)
        shp = f.a.shape
        if kind == "dirichlet":
            f.a = 0.0
            f.b = 2.0
            f.c = 2.0 * (0.5 + rng.random(shp))
        elif kind == "robin":
            sgn = -1.0 if nm in ("left", "bottom", "back") else 1.0
            f.a = sgn * (0.5 + rng.random(shp))
            f.b = 1.0 + rng.random(shp)
            f.c = rng.random(shp)
        elif kind == "mixed":
            if i % 2 == 0:
                f.fixedValue(1.0 + i)
            else:
                f.fixedGradient(0.3 * (i + 1), scale_coeffs=-2.5)
        else:
            f.fixedValue(0.5 + 0.25 * i)
    if kind in ("periodic", "periodic1"):
        if type(m) is pf.Grid1D:
            pair = ("left", "right")
        elif type(m) is pf.SphericalGrid3D:
            pair = ("back", "front")
        elif ndim(m) >= 2:
            pair = ("bottom", "top")
        else:
            return None
        getattr(bc, pair[0]).periodic = True
        if kind == "periodic":
            getattr(bc, pair[1]).periodic = True
    return bc


BCKINDS = ("default", "dirichlet", "robin", "mixed", "periodic", "periodic1")


def bc_state(bc):
    out = []
    for nm in FACES:
        f = getattr(bc, nm)
        out += [np.array(f.a), np.array(f.b), np.array(f.c), bool(f.periodic)]
    return out


def same_state(s1, s2):
    return len(s1) == len(s2) and all(
        np.shape(x) == np.shape(y) and np.array_equal(x, y) for x, y in zip(s1, s2))


def bc_arrays(bc):
    out = []
    for nm in FACES:
        f = getattr(bc, nm)
        out += [f.a, f.b, f.c]
    return out


def var_state(v):
    return (np.array(v._value), bc_state(v.BCs), bool(v.value.modified),
            bool(v.BCs.modified), id(v.BCs), [id(getattr(v.BCs, nm)) for nm in FACES])


def same_var_state(s1, s2):
    return (s1[0].dtype == s2[0].dtype and np.array_equal(s1[0], s2[0], equal_nan=True)
            and same_state(s1[1], s2[1]) and s1[2:] == s2[2:])


def fresh(m, interior, bc):
    return pf.CellVariable(m, np.array(interior, dtype=float, copy=True), copy.deepcopy(bc))


def terms_for(m):
    D = pf.FaceVariable(m, 0.7)
    beta = pf.CellVariable(m, 0.5 + rng.random(tuple(m.dims)))
    s = pf.CellVariable(m, rng.random(tuple(m.dims)))
    return [-pf.diffusionTerm(D), pf.linearSourceTerm(beta), pf.constantSourceTerm(s)]


def solved(v, terms):
    """solution obtained from a private, freshly built twin of v"""
    w = fresh(v.domain, v.value, v.BCs)
    pf.solvePDE(w, terms)
    return np.array(w._value)


def independent(res, operands, tag):
    """structural independence of a derived variable from its operands"""
    for k, o in enumerate(operands):
        if not isinstance(o, pf.CellVariable):
            continue
        ok(res is not o, tag + " result is an operand")
        ok(res.BCs is not o.BCs, tag + " result uses the BCs object of operand %d" % k)
        ok(not np.shares_memory(res._value, o._value), tag + " values alias operand %d" % k)
        for nm in FACES:
            ok(getattr(res.BCs, nm) is not getattr(o.BCs, nm), tag + " shares face " + nm)
        for x in bc_arrays(res.BCs):
            for y in bc_arrays(o.BCs):
                ok(not np.shares_memory(x, y), tag + " BC coefficient arrays alias operand %d" % k)
            ok(not np.shares_memory(x, o._value), tag + " BC array aliases operand values")
    # distinct faces do not alias each other
    arrs = bc_arrays(res.BCs)
    for i in range(len(arrs)):
        for j in range(i + 1, len(arrs)):
            ok(not np.shares_memory(arrs[i], arrs[j]), tag + " BC arrays alias each other")


def check_result(res, expect, lead, operands, tag, terms=None):
    """res: derived variable; expect: numpy evaluation; lead: left-most variable operand"""
    m = lead.domain
    ok(type(res) is pf.CellVariable, tag + " result type")
    ok(res.domain is lead.domain, tag + " mesh of the result")
    ok(np.array_equal(np.asarray(res.value, dtype=float), np.asarray(expect, dtype=float),
                      equal_nan=True), tag + " interior values")
    ok(same_state(bc_state(res.BCs), bc_state(lead.BCs)), tag + " BCs of left-most operand")
    ok(type(res.BCs) is type(lead.BCs), tag + " BCs class")
    ok(np.array_equal(res.BCs.domain.dims, m.dims), tag + " mesh of the BCs")
    ref = fresh(m, expect, lead.BCs)
    close(res._value, ref._value, tag + " ghost cells consistent with BCs")
    ok(not res.value.modified, tag + " fresh result flagged as modified")
    ok(res.BCsTerm_precalc is True, tag + " BCsTerm_precalc")
    independent(res, operands, tag)


# -------------------------------------------------------------- operators
BINOPS = [
    ("add", operator.add), ("sub", operator.sub), ("mul", operator.mul),
    ("truediv", operator.truediv), ("pow", operator.pow),
    ("gt", operator.gt), ("ge", operator.ge), ("lt", operator.lt), ("le", operator.le),
    ("and", operator.and_), ("or", operator.or_),
]
NP_EQUIV = {"and": np.logical_and, "or": np.logical_or}
REFLECTABLE = ("add", "sub", "mul", "truediv", "pow")


def np_eval(name, fn, x, y):
    if name in NP_EQUIV:
        return NP_EQUIV[name](x, y)
    return fn(x, y)


def check_operators(name, m):
    dims = tuple(m.dims)
    for ka in BCKINDS:
        bca = make_bc(m, ka)
        if bca is None:
            continue
        kb = BCKINDS[(BCKINDS.index(ka) + 2) % 4]
        bcb = make_bc(m, kb)
        av = rng.random(dims) + 0.25
        bv = rng.random(dims) + 0.25
        bv.flat[0] = av.flat[0]                       # one tie for >=, <=
        a = pf.CellVariable(m, av.copy(), bca)
        b = pf.CellVariable(m, bv.copy(), bcb)
        arr = rng.random(dims) + 0.5
        one = np.array(1.5).reshape((1,) * len(dims))
        sa, sb = var_state(a), var_state(b)
        others = [("var", b, bv), ("float", 2.5, 2.5), ("int", 3, 3),
                  ("npfloat", np.float64(0.75), 0.75), ("npint", np.int64(2), 2),
                  ("ndarray", arr, arr), ("ndarray1", one, one), ("zero", 0.0, 0.0),
                  ("self", a, av)]
        for opname, fn in BINOPS:
            for oname, other, oval in others:
                tag = "%s/%s a %s %s" % (name, ka, opname, oname)
                keep = np.array(other, copy=True) if isinstance(other, np.ndarray) else None
                res = fn(a, other)
                check_result(res, np_eval(opname, fn, av, oval), a, [a, other], tag)
                if keep is not None:
                    ok(np.array_equal(keep, other), tag + " ndarray operand changed")
                if opname in REFLECTABLE and not isinstance(other, (np.ndarray, np.generic)):
                    tag = "%s/%s %s %s a (reflected)" % (name, ka, oname, opname)
                    res = fn(other, a)
                    lead = other if isinstance(other, pf.CellVariable) else a
                    check_result(res, np_eval(opname, fn, oval, av), lead, [a, other], tag)
                ok(same_var_state(sa, var_state(a)), tag + " left operand changed")
                ok(same_var_state(sb, var_state(b)), tag + " right operand changed")
        # explicit reflected dunder calls (covers both branches of each)
        for rname, f in (("__radd__", lambda x, y: y + x), ("__rsub__", lambda x, y: y - x),
                         ("__rmul__", lambda x, y: y * x), ("__rtruediv__", lambda x, y: y / x),
                         ("__rpow__", lambda x, y: y ** x)):
            for oname, other, oval in others[:3]:
                res = getattr(a, rname)(other)
                check_result(res, f(av, oval), a, [a, other], "%s/%s a.%s(%s)" % (name, ka, rname, oname))
        for uname, fn in (("neg", operator.neg), ("abs", abs)):
            c = pf.CellVariable(m, av - 0.7, bca)
            sc = var_state(c)
            res = fn(c)
            check_result(res, fn(av - 0.7), c, [c], "%s/%s %s" % (name, ka, uname))
            ok(same_var_state(sc, var_state(c)), "%s/%s %s operand changed" % (name, ka, uname))
        ok(same_var_state(sa, var_state(a)), name + " a changed at the end")
        ok(same_var_state(sb, var_state(b)), name + " b changed at the end")
        # funceval / celleval
        c = pf.CellVariable(m, rng.random(dims), make_bc(m, "robin"))
        cv = np.array(c.value)
        for ev in (pf.funceval, pf.celleval):
            check_result(ev(np.sqrt, a), np.sqrt(av), a, [a], name + " funceval 1")
            check_result(ev(lambda x, y: x * np.exp(-y), a, b), av * np.exp(-bv), a, [a, b],
                         name + " funceval 2")
            check_result(ev(lambda x, y, z: x + 2 * y - z, b, a, c), bv + 2 * av - cv, b, [a, b, c],
                         name + " funceval 3")
            res = ev(lambda *xs: sum(xs), a, b, c, a, b, c, a, b)
            check_result(res, av + bv + cv + av + bv + cv + av + bv, a, [a, b, c], name + " funceval 8")
        ok(same_var_state(sa, var_state(a)), name + " a changed by funceval")
        ok(same_var_state(sb, var_state(b)), name + " b changed by funceval")


def check_integer(name, m):
    dims = tuple(m.dims)
    full = tuple(np.asarray(m.dims) + 2)
    bc = make_bc(m, "mixed")
    iv = rng.integers(1, 6, size=dims)
    a = pf.CellVariable(m, iv.copy(), bc)
    jf = rng.integers(1, 6, size=full)
    b = pf.CellVariable(m, jf.copy(), make_bc(m, "robin"))
    jv = jf[(slice(1, -1),) * len(dims)]
    sa, sb = var_state(a), var_state(b)
    for tag, res, expect, lead in [
            ("a+b", a + b, iv + jv, a), ("b-a", b - a, jv - iv, b), ("a/2", a / 2, iv / 2, a),
            ("2/a", 2 / a, 2 / iv, a), ("a**2", a ** 2, iv ** 2, a), ("2**b", 2 ** b, 2 ** jv, b),
            ("a*b", a * b, iv * jv, a), ("a>b", a > b, iv > jv, a), ("b>=3", b >= 3, jv >= 3, b),
            ("-b", -b, -jv, b), ("abs", abs(b - 3), np.abs(jv - 3), b),
            ("a/iarr", a / jv, iv / jv, a), ("copy", b.copy(), jv, b)]:
        ok(np.array_equal(np.asarray(res.value, dtype=float), np.asarray(expect, dtype=float)),
           name + " integer " + tag)
        ok(same_state(bc_state(res.BCs), bc_state(lead.BCs)), name + " integer BCs " + tag)
        independent(res, [a, b], name + " integer " + tag)
    ok(same_var_state(sa, var_state(a)) and same_var_state(sb, var_state(b)), name + " integer operands changed")
    c = b.copy()
    ok(np.array_equal(c._value, jf) and c._value.dtype == b._value.dtype, name + " integer copy")


# --------------------------------------------- cross modification probes
def set_dirichlet(face, val):
    face.a = 0.0
    face.b = 1.0
    face.c = val


def check_cross_modification(name, m):
    dims = tuple(m.dims)
    terms = terms_for(m)
    for ka in ("dirichlet", "robin", "mixed", "periodic1"):
        bca = make_bc(m, ka)
        if bca is None:
            continue
        tag = "%s/%s cross" % (name, ka)
        a = pf.CellVariable(m, rng.random(dims) + 0.5, bca)
        b = pf.CellVariable(m, rng.random(dims) + 0.5, make_bc(m, "robin"))
        makers = [("a+b", lambda: a + b), ("2*a", lambda: 2 * a), ("a/b", lambda: a / b),
                  ("1-a", lambda: 1 - a), ("a**b", lambda: a ** b), ("a>b", lambda: a > b),
                  ("a|b", lambda: a | b), ("-a", lambda: -a), ("abs", lambda: abs(a)),
                  ("funceval", lambda: pf.funceval(np.add, a, b)),
                  ("celleval", lambda: pf.celleval(np.cos, a)), ("copy", lambda: a.copy()),
                  ("tree", lambda: (a + b) * a - abs(b) / (1 + a ** 2))]
        for mname, make in makers:
            t = tag + " " + mname
            a_sol0 = solved(a, terms)
            b_sol0 = solved(b, terms)
            a0, b0 = var_state(a), var_state(b)
            res = make()
            res_vals = np.array(res.value)
            res_bc0 = bc_state(res.BCs)
            # 1. edit the result (BC coefficients, periodic flag, face object, values, solve)
            set_dirichlet(res.BCs.left, 7.0)
            res.BCs.right.c = 3.0 + np.zeros(res.BCs.right.c.shape)
            res.BCs.right.a[...] = 0.5
            res.BCs.left.periodic = not res.BCs.left.periodic
            res.BCs.left.periodic = not res.BCs.left.periodic
            res.value[...] = -4.0
            ok(same_var_state(a0, var_state(a)), t + ": editing the result changed operand a")
            ok(same_var_state(b0, var_state(b)), t + ": editing the result changed operand b")
            expect = solved(res, terms)
            pf.solvePDE(res, terms)
            close(res._value, expect, t + ": solving the edited result", rtol=1e-10)
            ok(same_var_state(a0, var_state(a)), t + ": solving the result changed operand a")
            ok(same_var_state(b0, var_state(b)), t + ": solving the result changed operand b")
            close(solved(a, terms), a_sol0, t + ": operand a solves differently", rtol=1e-12)
            close(solved(b, terms), b_sol0, t + ": operand b solves differently", rtol=1e-12)
            # 2. edit / solve the operands, the (new) result must not follow
            res = make()
            r0 = var_state(res)
            r_sol0 = solved(res, terms)
            keep_a = copy.deepcopy(a)
            a.BCs.right.fixedValue(-2.0)
            a.BCs.left.b[...] = 3.0
            a.value[...] = 11.0
            pf.solvePDE(a, terms)
            pf.solvePDE(b, terms)
            ok(same_var_state(r0, var_state(res)), t + ": editing/solving operands changed the result")
            ok(np.array_equal(res.value, res_vals) and same_state(bc_state(res.BCs), res_bc0),
               t + ": result content changed")
            close(solved(res, terms), r_sol0, t + ": result solves differently", rtol=1e-12)
            # restore a and b for the next maker
            a = keep_a
            b = pf.CellVariable(m, np.array(b0[0][(slice(1, -1),) * len(dims)]), b.BCs)
            bca = a.BCs


def check_shared_and_stale(name, m):
    dims = tuple(m.dims)
    terms = terms_for(m)
    tag = name + " shared BCs"
    bc = make_bc(m, "mixed")
    a = pf.CellVariable(m, rng.random(dims), bc)
    b = pf.CellVariable(m, rng.random(dims), bc)
    av, bv = np.array(a.value), np.array(b.value)
    res = a * b + a
    mid = a * b
    ok(mid.BCs is not bc and res.BCs is not bc and res.BCs is not mid.BCs, tag + " BC objects")
    old_state = bc_state(bc)
    r0 = var_state(res)
    # edit the shared object afterwards
    set_dirichlet(bc.left, 4.0)
    bc.right.fixedGradient(0.25)
    ok(same_var_state(r0, var_state(res)), tag + ": result follows an edit of the shared BCs")
    ok(same_state(bc_state(res.BCs), old_state), tag + ": result BCs changed")
    # both operands must see the edit (one consumes it first, the other must still notice)
    ea = solved(a, terms)
    eb = solved(b, terms)
    pf.solvePDE(a, terms)
    pf.solvePDE(b, terms)
    close(a._value, ea, tag + ": first sharer", rtol=1e-10)
    close(b._value, eb, tag + ": second sharer", rtol=1e-10)
    # --- operand with edited, not yet applied BCs and values
    tag = name + " stale operand"
    bc = make_bc(m, "robin")
    a = pf.CellVariable(m, av.copy(), bc)
    set_dirichlet(bc.left, 1.25)                 # not applied: ghost cells of a are stale
    a.value[...] = 2.0 * av                      # not applied either
    sa = var_state(a)
    res = a + 1
    check_result(res, 2.0 * av + 1, a, [a], tag)
    ok(same_var_state(sa, var_state(a)), tag + " operand refreshed or changed by an operator")
    c = a.copy()
    ok(np.array_equal(c._value, a._value), tag + ": copy must keep the (stale) ghost layer")
    ok(same_state(bc_state(c.BCs), bc_state(a.BCs)), tag + ": copy BCs")
    independent(c, [a], tag + " copy")
    ok(same_var_state(sa, var_state(a)), tag + " copy changed its source")
    # the copies/results are usable by the solver and give what a fresh variable gives
    for v in (res, c):
        expect = solved(v, terms)
        pf.solvePDE(v, terms)
        close(v._value, expect, tag + ": solving derived variable", rtol=1e-10)
    ok(same_var_state(sa, var_state(a)), tag + " solving derived variables changed the source")
    # --- failing external solver, then retry, on a derived variable
    tag = name + " retry"
    a = pf.CellVariable(m, av.copy(), make_bc(m, "dirichlet"))
    res = 3 * a - 1

    def broken(M, rhs):
        raise MemoryError("allocation failed")
    res.apply_BCs()          # consume the 'modified' flags inherited from a.BCs
    keep = var_state(res)
    ka = var_state(a)
    try:
        pf.solvePDE(res, terms, externalsolver=broken)
        ok(False, tag + " broken solver did not raise")
    except MemoryError:
        pass
    ok(same_var_state(keep, var_state(res)), tag + ": failed solve changed the variable")
    set_dirichlet(res.BCs.top if ndim(m) > 1 else res.BCs.right, 0.125)
    expect = solved(res, terms)
    pf.solvePDE(res, terms)
    close(res._value, expect, tag + ": retry", rtol=1e-10)
    ok(same_var_state(ka, var_state(a)), tag + ": operand changed")


def check_copy_and_pickle(name, m):
    dims = tuple(m.dims)
    terms = terms_for(m)
    for kind in BCKINDS:
        bc = make_bc(m, kind)
        if bc is None:
            continue
        tag = "%s/%s copy" % (name, kind)
        a = pf.CellVariable(m, rng.random(dims), bc)
        pf.solvePDE(a, terms)
        c = a.copy()
        ok(type(c) is pf.CellVariable and c.domain is a.domain, tag + " type/mesh")
        ok(np.array_equal(c._value, a._value) and c._value.dtype == a._value.dtype, tag + " values")
        ok(same_state(bc_state(c.BCs), bc_state(a.BCs)), tag + " BCs")
        independent(c, [a], tag)
        ok(not c.value.modified and not c.BCs.modified, tag + " flags")
        # copy of a copy, deepcopy and pickle round trip of derived variables
        for how, d in (("copy.copy()", c.copy()), ("deepcopy", copy.deepcopy(a + 1 - 1)),
                       ("pickle", pickle.loads(pickle.dumps(1 * a)))):
            close(d._value, a._value, tag + " " + how + " values", rtol=1e-13)
            ok(same_state(bc_state(d.BCs), bc_state(a.BCs)), tag + " " + how + " BCs")
            independent(d, [a, c], tag + " " + how)
            expect = solved(d, terms)
            set_dirichlet(d.BCs.left, 0.5)
            expect2 = solved(d, terms)
            pf.solvePDE(d, terms)
            close(d._value, expect2, tag + " " + how + " solve after edit", rtol=1e-10)
        ok(np.array_equal(c._value, a._value), tag + " copy changed later on")
        ok(same_state(bc_state(c.BCs), bc_state(a.BCs)), tag + " copy BCs changed later on")
        # transient run: old = phi.copy() pattern
        phi = c
        for it in range(3):
            old = phi.copy()
            keep = np.array(old._value)
            pf.solvePDE(phi, [pf.transientTerm(old, 0.1, 1.0)] + terms)
            ok(np.array_equal(old._value, keep), tag + " old copy changed by the step")
        ok(same_state(bc_state(phi.BCs), bc_state(a.BCs)), tag + " BCs after stepping")


def main():
    for name, m in meshes():
        check_operators(name, m)
        check_integer(name, m)
        check_cross_modification(name, m)
        check_shared_and_stale(name, m)
        check_copy_and_pickle(name, m)
    print("check 1 OK (%d assertions)" % NCHECK[0])


if __name__ == "__main__":
    main()
