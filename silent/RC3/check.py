"""
check.py for refactoring 3 (source.transientTerm, pdesolver.solveExplicitPDE)

Standalone:   PYTHONPATH=<tree>/src /venv/bin/python check.py
Exits 0 when every assertion holds (clean tree and patched tree).

Checked through the public API, on all 9 grid classes (uniform and
non-uniform), with Dirichlet / Neumann / Robin / periodic (also flagged on
one side only) boundary conditions:
  * transientTerm == (alpha/dt on the interior diagonal, alpha*old/dt on the
    interior RHS rows, nothing on ghost rows) for alpha scalar (int, float),
    ndarray (interior shape, full shape), CellVariable; dt over 12 decades
  * backward Euler residual, fixed point, dt->inf and dt->0 limits
  * solveExplicitPDE == old + dt*RHS on the interior, ghost cells as a freshly
    built variable, input untouched, result shares the BCs object of the
    input, result is a full citizen for solvePDE (also after BC edits made
    through the shared BCs object, after a failing external solver + retry)
  * stale inputs (value edited / BCs edited, not yet applied)
  * integer input arrays, multi step sequences, explicit vs implicit O(dt^2)
"""
import sys
import copy
import warnings
import numpy as np
import pyfvtool as pf
from scipy.sparse.linalg import spsolve

warnings.simplefilter("ignore")
rng = np.random.default_rng(20240923)
NCHECK = [0]


def ok(cond, msg):
    NCHECK[0] += 1
    if not cond:
        print("FAILED:", msg)
        sys.exit(1)


def close(a, b, msg, rtol=1e-12, atol=0.0):
    a = np.asarray(a, dtype=float)
    b = np.asarray(b, dtype=float)
    ok(a.shape == b.shape, msg + " (shape %s vs %s)" % (a.shape, b.shape))
    scale = max(1.0, float(np.max(np.abs(b))) if b.size else 1.0)
    err = float(np.max(np.abs(a - b))) if a.size else 0.0
    ok(err <= rtol * scale + atol, msg + " (err %.3e, scale %.3e)" % (err, scale))


# ---------------------------------------------------------------- meshes
def faces(n, lo, hi):
    """non-uniform face positions"""
    w = 0.5 + rng.random(n)
    x = np.concatenate([[0.0], np.cumsum(w)])
    return lo + (hi - lo) * x / x[-1]


def meshes():
    out = []
    out.append(("Grid1D-u", pf.Grid1D(6, 1.5)))
    out.append(("Grid1D-n", pf.Grid1D(faces(5, 0.0, 2.0))))
    out.append(("CylindricalGrid1D-u", pf.CylindricalGrid1D(5, 1.2)))
    out.append(("CylindricalGrid1D-n", pf.CylindricalGrid1D(faces(6, 0.3, 2.0))))
    out.append(("SphericalGrid1D-u", pf.SphericalGrid1D(5, 1.2)))
    out.append(("SphericalGrid1D-n", pf.SphericalGrid1D(faces(4, 0.2, 1.0))))
    out.append(("Grid2D-u", pf.Grid2D(4, 3, 1.0, 2.0)))
    out.append(("Grid2D-n", pf.Grid2D(faces(3, 0, 1), faces(4, 0, 2))))
    out.append(("CylindricalGrid2D-u", pf.CylindricalGrid2D(3, 4, 1.0, 2.0)))
    out.append(("CylindricalGrid2D-n", pf.CylindricalGrid2D(faces(4, 0.1, 1), faces(3, 0, 2))))
    out.append(("PolarGrid2D-u", pf.PolarGrid2D(3, 5, 1.0, 2 * np.pi)))
    out.append(("PolarGrid2D-n", pf.PolarGrid2D(faces(4, 0.2, 1), faces(4, 0, 1.5))))
    out.append(("Grid3D-u", pf.Grid3D(3, 2, 4, 1.0, 2.0, 3.0)))
    out.append(("Grid3D-n", pf.Grid3D(faces(2, 0, 1), faces(3, 0, 1), faces(3, 0, 2))))
    out.append(("CylindricalGrid3D-u", pf.CylindricalGrid3D(3, 4, 2, 1.0, 2 * np.pi, 1.0)))
    out.append(("CylindricalGrid3D-n", pf.CylindricalGrid3D(faces(2, 0.2, 1), faces(3, 0, 2.0), faces(3, 0, 1))))
    out.append(("SphericalGrid3D-u", pf.SphericalGrid3D(3, 3, 4, 1.0, np.pi, 2 * np.pi)))
    out.append(("SphericalGrid3D-n", pf.SphericalGrid3D(faces(3, 0.3, 1), faces(2, 0.4, 2.0), faces(3, 0, 3.0))))
    return out


def ndim(m):
    return len(m.dims)


def face_names(m):
    return [["left", "right"], ["left", "right", "bottom", "top"],
            ["left", "right", "bottom", "top", "back", "front"]][ndim(m) - 1]


def is_cartesian(m):
    return type(m) in (pf.Grid1D, pf.Grid2D, pf.Grid3D)


def make_bc(m, kind):
    """kind: 'default', 'dirichlet', 'robin', 'mixed', 'periodic', 'periodic1'"""
    bc = pf.BoundaryConditions(m)
    names = face_names(m)
    if kind == "default":
        return bc
    for i, nm in enumerate(names):
        f = getattr(bc, nm)
        shp = f.a.shape
        if kind == "dirichlet":
            f.a = 0.0
            f.b = 2.0                       # coefficient other than 1
            f.c = 2.0 * (0.5 + rng.random(shp))
        elif kind == "robin":
            sgn = -1.0 if nm in ("left", "bottom", "back") else 1.0
            f.a = sgn * (0.5 + rng.random(shp))
            f.b = 1.0 + rng.random(shp)
            f.c = rng.random(shp)
        elif kind == "mixed":
            if i % 2 == 0:
                f.fixedValue(1.0 + i)
            else:
                f.fixedGradient(0.3 * (i + 1), scale_coeffs=-2.5)
        elif kind in ("periodic", "periodic1"):
            # Dirichlet everywhere, then make one admissible axis periodic
            f.fixedValue(0.5 + 0.25 * i)
    if kind in ("periodic", "periodic1"):
        if is_cartesian(m):
            pair = [("left", "right"), ("bottom", "top"), ("back", "front")][ndim(m) - 1]
            if ndim(m) == 3:
                pair = ("bottom", "top")
        elif type(m) in (pf.PolarGrid2D, pf.CylindricalGrid3D):
            pair = ("bottom", "top")        # theta
        elif type(m) is pf.CylindricalGrid2D:
            pair = ("bottom", "top")        # z
        elif type(m) is pf.SphericalGrid3D:
            pair = ("back", "front")        # phi
        else:
            return None                     # radial 1D grids: not admissible
        getattr(bc, pair[0]).periodic = True
        if kind == "periodic":
            getattr(bc, pair[1]).periodic = True
    return bc


def inner(a):
    return a[(slice(1, -1),) * a.ndim]


def fresh(m, interior, bc):
    """freshly built, fully independent variable with the same content"""
    return pf.CellVariable(m, np.array(interior, dtype=float, copy=True),
                           copy.deepcopy(bc))


def bc_state(bc):
    out = []
    for nm in ("left", "right", "bottom", "top", "back", "front"):
        f = getattr(bc, nm)
        out += [np.array(f.a), np.array(f.b), np.array(f.c), bool(f.periodic)]
    return out


def same_state(s1, s2):
    return all(np.array_equal(x, y) for x, y in zip(s1, s2))


def spatial_terms(m):
    """(list of terms, Mspatial, RHSspatial) : -div(D grad phi) + beta phi = s"""
    D = pf.FaceVariable(m, 0.7)
    beta = pf.CellVariable(m, 0.5 + rng.random(tuple(m.dims)))
    s = pf.CellVariable(m, rng.random(tuple(m.dims)))
    Md = pf.diffusionTerm(D)
    Ml = pf.linearSourceTerm(beta)
    Rs = pf.constantSourceTerm(s)
    return [-Md, Ml, Rs], (-Md + Ml), Rs


def interior_rows(m):
    G = m.cell_numbers()
    return inner(G).ravel()


# ------------------------------------------------------- 1. transientTerm
def check_transient_term(name, m):
    rows = interior_rows(m)
    N = int(np.prod(np.asarray(m.dims) + 2))
    dims = tuple(m.dims)
    old_vals = rng.random(dims) + 0.1
    phi = pf.CellVariable(m, old_vals.copy(), make_bc(m, "robin"))
    phi_snapshot = np.array(phi._value)
    full_alpha = rng.random(tuple(np.asarray(m.dims) + 2)) + 0.5
    alphas = [
        ("float", 1.7, 1.7 * np.ones(dims)),
        ("int", 3, 3.0 * np.ones(dims)),
        ("default", None, np.ones(dims)),
        ("array", None, rng.random(dims) + 0.5),
        ("intarray", None, rng.integers(1, 5, size=dims)),
        ("fullarray", full_alpha, inner(full_alpha)),
        ("cellvar", None, rng.random(dims) + 0.5),
    ]
    for dt in [1e-6, 1e-3, 0.5, 1, 7, 1e3, 1e6]:
        for kind, arg, ref in alphas:
            if kind == "default":
                M, RHS = pf.transientTerm(phi, dt)
            elif kind in ("array", "intarray"):
                arg = ref.copy()
                M, RHS = pf.transientTerm(phi, dt, arg)
                ok(np.array_equal(arg, ref), name + " alpha array changed")
            elif kind == "cellvar":
                bca = make_bc(m, "dirichlet")
                arg = pf.CellVariable(m, ref.copy(), bca)
                before = np.array(arg._value)
                sb = bc_state(arg.BCs)
                M, RHS = pf.transientTerm(phi, dt, arg)
                ok(np.array_equal(before, arg._value), name + " alpha variable changed")
                ok(same_state(sb, bc_state(arg.BCs)), name + " alpha BCs changed")
                ok(arg.BCs is bca, name + " alpha BCs object replaced")
            else:
                M, RHS = pf.transientTerm(phi, dt, arg)
            tag = "%s transientTerm alpha=%s dt=%g" % (name, kind, dt)
            ok(M.shape == (N, N), tag + " matrix shape")
            ok(RHS.shape == (N,), tag + " rhs shape")
            Md = np.asarray(M.todense()) if N <= 400 else None
            diag = M.diagonal()
            expect_d = np.zeros(N)
            expect_d[rows] = (np.asarray(ref, dtype=float) / dt).ravel()
            close(diag, expect_d, tag + " diagonal")
            if Md is not None:
                ok(np.count_nonzero(Md - np.diag(np.diag(Md))) == 0, tag + " off-diagonal entries")
            expect_r = np.zeros(N)
            expect_r[rows] = (np.asarray(ref, dtype=float) * old_vals / dt).ravel()
            close(RHS, expect_r, tag + " rhs")
            ok(type(RHS) is np.ndarray and RHS.dtype == np.float64, tag + " rhs type")
            # terms own their memory
            ok(not np.shares_memory(RHS, phi._value), tag + " rhs aliases phi")
            ok(not np.shares_memory(M.data, phi._value), tag + " M aliases phi")
    ok(np.array_equal(phi_snapshot, phi._value), name + " transientTerm changed phi")
    # the terms are insensitive to later edits of phi / alpha and vice versa
    a = pf.CellVariable(m, 2.0)
    M, RHS = pf.transientTerm(phi, 0.1, a)
    M0, R0 = M.copy(), RHS.copy()
    phi.value[...] = 5.0
    a.value[...] = 9.0
    ok((M != M0).nnz == 0 and np.array_equal(RHS, R0), name + " terms alias their inputs")
    RHS[:] = -1.0
    M.data[:] = -1.0
    close(phi.value, 5.0 * np.ones(dims), name + " phi aliases the term")
    close(a.value, 9.0 * np.ones(dims), name + " alpha aliases the term")
    # bad alpha shape -> ValueError as for any CellVariable
    try:
        pf.transientTerm(phi, 0.1, np.ones(tuple(np.asarray(m.dims) + 1)))
        ok(False, name + " bad alpha shape accepted")
    except ValueError:
        ok(True, "")


# -------------------------------------------------- 2. backward Euler laws
def check_backward_euler(name, m, bckind):
    bc = make_bc(m, bckind)
    if bc is None:
        return
    terms, Msp, Rsp = spatial_terms(m)
    dims = tuple(m.dims)
    rows = interior_rows(m)
    steady = pf.CellVariable(m, 0.0, copy.deepcopy(bc))
    pf.solvePDE(steady, terms)
    st_full = np.array(steady._value)
    alpha_field = pf.CellVariable(m, 0.5 + rng.random(dims))
    for alpha in (1.0, 3, 0.25, alpha_field):
        aval = alpha.value if isinstance(alpha, pf.CellVariable) else alpha * np.ones(dims)
        for dt in [1e-6, 1e-3, 1.0, 1e3, 1e6]:
            tag = "%s/%s alpha=%s dt=%g" % (name, bckind, type(alpha).__name__, dt)
            # (a) fixed point
            phi = pf.CellVariable(m, inner(st_full).copy(), copy.deepcopy(bc))
            old = phi.copy()
            Mt, Rt = pf.transientTerm(old, dt, alpha)
            pf.solvePDE(phi, [(Mt, Rt)] + terms)
            close(phi._value, st_full, tag + " steady state is not a fixed point", rtol=1e-8)
            # (b) residual for an arbitrary old field
            oldv = rng.random(dims)
            phi = pf.CellVariable(m, oldv.copy(), copy.deepcopy(bc))
            old = phi.copy()
            old_full = np.array(old._value)
            Mt, Rt = pf.transientTerm(old, dt, alpha)
            raw = []
            def recording(M, b):
                raw.append(spsolve(M, b))
                return raw[-1].copy()
            pf.solvePDE(phi, [(Mt, Rt)] + terms, externalsolver=recording)
            ok(np.array_equal(old._value, old_full), tag + " old variable changed")
            # raw solution vector: its ghost entries satisfy the BC rows of the
            # matrix (on non-uniform periodic grids apply_BCs may afterwards
            # replace them by slightly different values)
            new = raw[0]
            close(phi.value, inner(new.reshape(phi._value.shape)), tag + " interior of solution")
            lhs = (aval.ravel() * (np.array(phi.value).ravel() - oldv.ravel()) / dt
                   + (Msp @ new)[rows])
            rhs = Rsp[rows]
            scale = max(1.0, np.max(np.abs(aval)) / dt * max(1.0, np.max(np.abs(new))))
            ok(np.max(np.abs(lhs - rhs)) <= 1e-9 * scale, tag + " backward Euler residual")
            # (c) limits
            if dt >= 1e6:
                close(phi.value, inner(st_full), tag + " dt->inf", rtol=1e-3)
            if dt <= 1e-6:
                close(phi.value, oldv, tag + " dt->0", rtol=5e-2)
    # (d) limits, extreme decades
    oldv = rng.random(dims)
    phi = pf.CellVariable(m, oldv.copy(), copy.deepcopy(bc))
    pf.solvePDE(phi, [pf.transientTerm(phi.copy(), 1e12, 2.0)] + terms)
    close(phi.value, inner(st_full), name + "/" + bckind + " dt=1e12", rtol=1e-8)
    phi = pf.CellVariable(m, oldv.copy(), copy.deepcopy(bc))
    pf.solvePDE(phi, [pf.transientTerm(phi.copy(), 1e-12, 2.0)] + terms)
    close(phi.value, oldv, name + "/" + bckind + " dt=1e-12", rtol=1e-7)


# ------------------------------------------------------ 3. explicit solver
def explicit_rhs(m, phi, Msp, Rsp):
    return Rsp - Msp @ np.asarray(phi._value).ravel()


def check_explicit(name, m, bckind):
    bc = make_bc(m, bckind)
    if bc is None:
        return
    terms, Msp, Rsp = spatial_terms(m)
    dims = tuple(m.dims)
    full = tuple(np.asarray(m.dims) + 2)
    tag = "%s/%s explicit" % (name, bckind)
    for dt in [1e-9, 1e-4, 1e-2, 3, 1e3]:
        oldv = rng.random(dims)
        phi_old = pf.CellVariable(m, oldv.copy(), bc)
        RHS = explicit_rhs(m, phi_old, Msp, Rsp)
        RHS0 = RHS.copy()
        before = np.array(phi_old._value)
        sb = bc_state(bc)
        res = pf.solveExplicitPDE(phi_old, dt, RHS)
        ok(res is not phi_old, tag + " returned its input")
        ok(np.array_equal(before, phi_old._value), tag + " input changed")
        ok(same_state(sb, bc_state(bc)), tag + " BCs changed")
        ok(np.array_equal(RHS, RHS0), tag + " RHS changed")
        ok(not np.shares_memory(res._value, phi_old._value), tag + " result aliases input")
        ok(not np.shares_memory(res._value, RHS), tag + " result aliases RHS")
        expect = oldv + dt * inner(RHS.reshape(full))
        close(res.value, expect, tag + " interior dt=%g" % dt, rtol=1e-13)
        ref = fresh(m, expect, bc)
        close(res._value, ref._value, tag + " ghost cells dt=%g" % dt, rtol=1e-12)
        ok(res.BCs is phi_old.BCs, tag + " result must refer to the BCs of its input")
        ok(res.domain is phi_old.domain, tag + " result mesh")
        ok(res._value.dtype == np.float64, tag + " dtype")
        ok(not res.BCs.modified, tag + " BCs flagged modified")
        # independence of values
        keep = np.array(phi_old._value)
        res.value[...] = 123.0
        ok(np.array_equal(keep, phi_old._value), tag + " editing result changed input")
        res.value = expect
    # --- result fed to the implicit solver == fresh variable fed to it
    oldv = rng.random(dims)
    phi_old = pf.CellVariable(m, oldv.copy(), bc)
    RHS = explicit_rhs(m, phi_old, Msp, Rsp)
    dt = 1e-3
    res = pf.solveExplicitPDE(phi_old, dt, RHS)
    expect = oldv + dt * inner(RHS.reshape(full))
    ref = fresh(m, expect, bc)
    Mt, Rt = pf.transientTerm(res.copy(), 0.1, 1.5)
    Mt2, Rt2 = pf.transientTerm(ref.copy(), 0.1, 1.5)
    pf.solvePDE(res, [(Mt, Rt)] + terms)
    pf.solvePDE(ref, [(Mt2, Rt2)] + terms)
    close(res._value, ref._value, tag + " result fed to solvePDE", rtol=1e-10)
    # --- edit the shared BCs object afterwards: both variables must follow
    res = pf.solveExplicitPDE(phi_old, dt, RHS)
    f = bc.right
    f.a = 0.0
    f.b = 1.0
    f.c = 0.75
    bc2 = copy.deepcopy(bc)
    r1 = fresh(m, res.value, bc2)
    r2 = fresh(m, phi_old.value, bc2)
    pf.solvePDE(res, terms)
    pf.solvePDE(phi_old, terms)
    pf.solvePDE(r1, terms)
    pf.solvePDE(r2, terms)
    close(res._value, r1._value, tag + " BC edit after explicit step (result)", rtol=1e-10)
    close(phi_old._value, r2._value, tag + " BC edit after explicit step (input)", rtol=1e-10)
    # and the other way round: explicit step right after a BC edit / value edit
    phi_old = pf.CellVariable(m, oldv.copy(), bc)
    bc.left.a = 0.0
    bc.left.b = 1.0
    bc.left.c = -0.5
    phi_old.value[...] = 2.0 * oldv                # value edited too, nothing applied yet
    res = pf.solveExplicitPDE(phi_old, dt, RHS)
    ref_old = fresh(m, 2.0 * oldv, bc)
    close(phi_old._value, ref_old._value, tag + " stale input is brought up to date", rtol=1e-12)
    expect = 2.0 * oldv + dt * inner(RHS.reshape(full))
    close(res._value, fresh(m, expect, bc)._value, tag + " step from a stale input", rtol=1e-12)
    # --- failing external solver, then retry
    def broken(M, b):
        raise MemoryError("no memory")
    res = pf.solveExplicitPDE(phi_old, dt, RHS)
    keep = np.array(res._value)
    try:
        pf.solvePDE(res, terms, externalsolver=broken)
        ok(False, tag + " broken solver did not raise")
    except MemoryError:
        pass
    ok(np.array_equal(keep, res._value), tag + " failed solve changed the variable")
    ref = fresh(m, res.value, bc)
    pf.solvePDE(res, terms)
    pf.solvePDE(ref, terms)
    close(res._value, ref._value, tag + " retry after failed solve", rtol=1e-10)
    # --- multi step sequence against a plain numpy loop
    v = rng.random(dims)
    phi = pf.CellVariable(m, v.copy(), bc)
    dt = 1e-4
    for it in range(4):
        RHS = explicit_rhs(m, phi, Msp, Rsp)
        vfull = np.array(fresh(m, v, bc)._value)
        v = v + dt * inner((Rsp - Msp @ vfull.ravel()).reshape(full))
        phi = pf.solveExplicitPDE(phi, dt, RHS)
        close(phi.value, v, tag + " multi step %d" % it, rtol=1e-11)
    # --- a variable created without BC term precalculation
    lazy = pf.CellVariable(m, oldv.copy(), bc, BCsTerm_precalc=False)
    RHS = explicit_rhs(m, lazy, Msp, Rsp)
    res = pf.solveExplicitPDE(lazy, dt, RHS)
    ref = fresh(m, oldv + dt * inner(RHS.reshape(full)), bc)
    pf.solvePDE(res, terms)
    pf.solvePDE(ref, terms)
    close(res._value, ref._value, tag + " input without precalculated BC term", rtol=1e-10)


def check_explicit_integer(name, m):
    """integer input arrays (interior shape and ghost-including shape)"""
    dims = tuple(m.dims)
    full = tuple(np.asarray(m.dims) + 2)
    bc = make_bc(m, "mixed")
    iv = rng.integers(-3, 9, size=dims)
    phi = pf.CellVariable(m, iv.copy(), bc)
    RHS = rng.random(int(np.prod(full)))
    res = pf.solveExplicitPDE(phi, 0.125, RHS)
    expect = iv + 0.125 * inner(RHS.reshape(full))
    close(res.value, expect, name + " int interior array", rtol=1e-13)
    close(res._value, fresh(m, expect, bc)._value, name + " int interior array, ghosts")
    ok(np.array_equal(phi.value, iv), name + " int input changed")
    ifull = rng.integers(-3, 9, size=full)
    phi = pf.CellVariable(m, ifull.copy(), bc)
    for dt, R in ((0.5, RHS), (2, rng.integers(0, 4, size=RHS.shape))):
        res = pf.solveExplicitPDE(phi, dt, R)
        expect = inner(ifull) + dt * inner(R.reshape(full))
        close(res.value, expect, name + " int full array", rtol=1e-13)
        close(res._value, fresh(m, expect, bc)._value, name + " int full array, ghosts")
        ok(np.array_equal(phi._value, ifull), name + " int full input changed")
    # integer alpha / dt in the transient term, integer old field
    M, R = pf.transientTerm(phi, 2, 3)
    rows = interior_rows(m)
    close(M.diagonal()[rows], 1.5 * np.ones(rows.size), name + " int alpha/int dt")
    close(R[rows], (3 * inner(ifull) / 2).ravel(), name + " int old field")


def check_order(name, m):
    """explicit and implicit steps agree to O(dt^2)"""
    bc = make_bc(m, "mixed")
    terms, Msp, Rsp = spatial_terms(m)
    dims = tuple(m.dims)
    v = rng.random(dims)
    diffs = []
    for dt in (2e-4, 1e-4):
        old = pf.CellVariable(m, v.copy(), copy.deepcopy(bc))
        ex = pf.solveExplicitPDE(old, dt, explicit_rhs(m, old, Msp, Rsp))
        im = pf.CellVariable(m, v.copy(), copy.deepcopy(bc))
        pf.solvePDE(im, [pf.transientTerm(old, dt, 1.0)] + terms)
        diffs.append(np.max(np.abs(ex.value - im.value)))
    ok(diffs[1] <= 1e-14 or 3.0 <= diffs[0] / diffs[1] <= 5.0,
       name + " explicit/implicit order: %r" % (diffs,))


def main():
    for name, m in meshes():
        check_transient_term(name, m)
        for kind in ("default", "dirichlet", "robin", "mixed", "periodic", "periodic1"):
            check_backward_euler(name, m, kind)
            check_explicit(name, m, kind)
        check_explicit_integer(name, m)
        check_order(name, m)
    print("check 3 OK (%d assertions)" % NCHECK[0])


if __name__ == "__main__":
    main()
