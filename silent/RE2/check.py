import copy
import sys
import warnings

import numpy as np

import pyfvtool as pf
from pyfvtool.utilities import TrackedArray

warnings.simplefilter("ignore")
np.seterr(all="ignore")

RTOL = 1e-12
FACES = {1: ("left", "right"),
         2: ("left", "right", "bottom", "top"),
         3: ("left", "right", "bottom", "top", "back", "front")}
ALLFACES = ("left", "right", "bottom", "top", "back", "front")
PAIRS = {"left": "right", "right": "left", "bottom": "top", "top": "bottom",
         "back": "front", "front": "back"}
NCHECKS = [0]


def meshes():
    xf = np.array([0.0, 0.1, 0.25, 0.5, 0.6, 1.0])
    yf = np.array([0.0, 0.3, 0.5, 1.0])
    zf = np.array([0.0, 0.2, 1.0])
    return [
        ("Grid1D", pf.Grid1D(6, 1.0)),
        ("Grid1D-nonuniform", pf.Grid1D(xf)),
        ("CylindricalGrid1D", pf.CylindricalGrid1D(5, 1.0)),
        ("SphericalGrid1D", pf.SphericalGrid1D(xf)),
        ("Grid2D", pf.Grid2D(4, 3, 1.0, 2.0)),
        ("Grid2D-nonuniform", pf.Grid2D(xf, yf)),
        ("CylindricalGrid2D", pf.CylindricalGrid2D(3, 4, 1.0, 1.0)),
        ("PolarGrid2D", pf.PolarGrid2D(3, 4, 1.0, 2*np.pi)),
        ("Grid3D", pf.Grid3D(3, 2, 4, 1.0, 1.0, 1.0)),
        ("Grid3D-nonuniform", pf.Grid3D(yf, zf, xf)),
        ("CylindricalGrid3D", pf.CylindricalGrid3D(3, 4, 2, 1.0, 2*np.pi, 1.0)),
        ("SphericalGrid3D", pf.SphericalGrid3D(3, 3, 4, 1.0, np.pi, 2*np.pi)),
    ]


def ndim(m):
    return len(m.dims)


def radial(m):
    """faces on which a periodic flag makes the boundary term raise"""
    return type(m) in (pf.CylindricalGrid1D, pf.SphericalGrid1D,
                       pf.CylindricalGrid2D, pf.PolarGrid2D,
                       pf.CylindricalGrid3D, pf.SphericalGrid3D)


def close(x, y, what=""):
    NCHECKS[0] += 1
    x = np.asarray(x, dtype=float)
    y = np.asarray(y, dtype=float)
    assert x.shape == y.shape, (what, x.shape, y.shape)
    scale = max(1.0, float(np.nanmax(np.abs(y))) if y.size and np.isfinite(y).any() else 1.0)
    np.testing.assert_allclose(x, y, rtol=RTOL, atol=RTOL*scale,
                               equal_nan=True, err_msg=what)


def same(x, y, what=""):
    NCHECKS[0] += 1
    np.testing.assert_array_equal(np.asarray(x), np.asarray(y), err_msg=what)


def bc_state(bc):
    return {f: (np.array(getattr(bc, f).a), np.array(getattr(bc, f).b),
                np.array(getattr(bc, f).c), bool(getattr(bc, f).periodic))
            for f in ALLFACES}


def bc_state_equal(s1, s2, what=""):
    for f in ALLFACES:
        for k in range(3):
            same(s1[f][k], s2[f][k], what + " " + f + " abc"[k])
        assert s1[f][3] == s2[f][3], (what, f, "periodic")


def clone_bcs(bc):
    """A brand-new BoundaryConditions object with the visible state of bc."""
    new = pf.BoundaryConditions(bc.domain)
    for f in ALLFACES:
        src, dst = getattr(bc, f), getattr(new, f)
        if src.a.size:
            dst.a[...] = np.array(src.a)
            dst.b[...] = np.array(src.b)
            dst.c[...] = np.array(src.c)
        if src.periodic:
            dst.periodic = True
    return new


def fresh_like(phi):
    """Freshly constructed variable with the same visible state as phi."""
    return pf.CellVariable(phi.domain, np.array(phi.value), clone_bcs(phi.BCs))


def rhs_vector(m, seed=0):
    n = int(np.prod(np.asarray(m.dims) + 2))
    return np.sin(1.0 + seed + np.arange(n))


def implicit(phi, seed=0, externalsolver=None):
    """One implicit step; the terms depend on the interior values of phi."""
    m = phi.domain
    D = pf.FaceVariable(m, 0.7)
    src = pf.CellVariable(m, 0.3 + 0.1*seed)
    terms = [pf.transientTerm(phi, 0.05, 1.0), -pf.diffusionTerm(D),
             pf.constantSourceTerm(src)]
    return pf.solvePDE(phi, terms, externalsolver=externalsolver)


def explicit(phi, seed=0):
    return pf.solveExplicitPDE(phi, 0.01, rhs_vector(phi.domain, seed))


def check_solves_like_fresh(phi, what="", seed=0):
    """The C09 observation: the next solve on phi (implicit and explicit)
    equals the same solve on a variable freshly built from the visible
    state. phi itself is left untouched (works on copies made by deepcopy of
    the *visible* state only for the fresh one; phi is solved for real by
    the caller)."""
    f_i = fresh_like(phi)
    f_e = fresh_like(phi)
    ref_i = implicit(f_i, seed)
    ref_e = explicit(f_e, seed)
    return ref_i, ref_e


def do_implicit_and_compare(phi, what, seed=0):
    ref = implicit(fresh_like(phi), seed)
    out = implicit(phi, seed)
    assert out is phi
    close(phi.value, ref.value, what + " implicit interior")
    close(phi._value, ref._value, what + " implicit ghosts")
    return phi


def do_explicit_and_compare(phi, what, seed=0):
    ref = explicit(fresh_like(phi), seed)
    out = explicit(phi, seed)
    assert out is not phi and type(out) is pf.CellVariable
    assert out.BCs is phi.BCs
    close(out.value, ref.value, what + " explicit interior")
    close(out._value, ref._value, what + " explicit ghosts")
    return out


def do_apply_and_compare(phi, what):
    ref = fresh_like(phi)
    phi.apply_BCs()
    close(phi._value, ref._value, what + " apply_BCs ghosts")
    return phi


# ---------------------------------------------------------------------------
# edit alphabet
# ---------------------------------------------------------------------------

KINDS = ("dirichlet", "neumann", "robin", "noflux")


def coeffs(kind, rng):
    v = float(np.round(rng.uniform(-2, 2), 3))
    if kind == "dirichlet":
        return 0.0, 1.0, v
    if kind == "neumann":
        return 1.0, 0.0, v
    if kind == "robin":
        return 1.0, 3.3, v
    return 1.0, 0.0, 0.0


def random_index(shape, rng):
    """a random basic/fancy index valid for an array of this shape"""
    idx = []
    for n in shape:
        r = rng.integers(0, 4)
        if r == 0 or n == 1:
            idx.append(slice(None))
        elif r == 1:
            lo = int(rng.integers(0, n))
            idx.append(slice(lo, int(rng.integers(lo, n)) + 1))
        elif r == 2:
            idx.append(int(rng.integers(-n, n)))
        else:
            idx.append(slice(None, None, 2))
    return tuple(idx)


def edit_bc(bc, m, rng, views):
    faces = FACES[ndim(m)]
    f = faces[rng.integers(0, len(faces))]
    face = getattr(bc, f)
    route = rng.integers(0, 8)
    a, b, c = coeffs(KINDS[rng.integers(0, 4)], rng)
    if route == 0:          # whole-array assignment through the setters
        face.a, face.b, face.c = a, b, c
        assert np.all(face.a == a) and np.all(face.b == b) \
            and np.all(face.c == c)
    elif route == 1:        # slice assignment on the coefficient arrays
        idx = random_index(face.a.shape, rng)
        face.a[idx] = a
        face.b[idx] = b
        idx_c = random_index(face.c.shape, rng)
        face.c[idx_c] = c
    elif route == 2:
        face.fixedValue(c)
        assert np.all(face.a == 0.0) and np.all(face.b == 1.0) \
            and np.all(face.c == c)
    elif route == 3:
        face.fixedGradient(c, scale_coeffs=2.0)
    elif route == 4:
        face.defaultNoFlux()
    elif route == 5:
        face.newtonCooling(1.0, 3.3, c, reverse_direction=bool(rng.integers(0, 2)))
    elif route == 6:        # keep a view for later, write through an old one
        views.append(face.c[random_index(face.c.shape, rng)])
        views.append(face.c.reshape(-1))
        if len(views) > 2:
            v = views[rng.integers(0, len(views))]
            if isinstance(v, np.ndarray) and v.ndim:
                v[...] = c
    else:                   # periodic flag, possibly on one side only
        if radial(m) and f in ("left", "right"):
            face.c = c
        else:
            face.periodic = not face.periodic
            if rng.integers(0, 2):
                other = getattr(bc, PAIRS[f])
                other.periodic = face.periodic
    return f


def edit_value(phi, rng, vviews):
    route = rng.integers(0, 6)
    shape = phi.value.shape
    shadow = np.array(phi.value)      # plain numpy model of the interior
    ghosts = np.array(phi._value)
    if route == 0:
        v = float(np.round(rng.uniform(-1, 1), 3))
        phi.value = v
        shadow[...] = v
    elif route == 1:
        v = rng.uniform(-1, 1, size=shape)
        phi.value = v
        shadow[...] = v
    elif route == 2:
        idx, v = random_index(shape, rng), rng.uniform(-1, 1)
        phi.value[idx] = v
        shadow[idx] = v
    elif route == 3:
        phi.value[phi.value > 0.2] = -0.5        # boolean mask
        shadow[shadow > 0.2] = -0.5
    elif route == 4:
        phi.value *= 1.5                         # in-place op + setter
        shadow *= 1.5
    else:                                         # retained view of .value
        vviews.append(phi.value)
        v = vviews[rng.integers(0, len(vviews))]
        idx, x = random_index(v.shape, rng), rng.uniform(-1, 1)
        live = np.shares_memory(v, phi._value)
        v[idx] = x
        if live:
            shadow[idx] = x
    same(phi.value, shadow, "value edit route %d" % route)
    # an edit of the interior leaves the ghost layer alone
    inner = (slice(1, -1),)*ghosts.ndim
    ghosts[inner] = shadow
    same(phi._value, ghosts, "value edit touched ghost cells, route %d" % route)


def run_history(m, seed, nops, pass_bcs):
    """Random history over the edit/solve alphabet of C09. After every solve
    or apply_BCs the result is compared with a fresh variable."""
    rng = np.random.default_rng(seed)
    init = rng.uniform(-1, 1, size=tuple(m.dims))
    if pass_bcs:
        phi = pf.CellVariable(m, init, pf.BoundaryConditions(m))
    else:
        phi = pf.CellVariable(m, init)
    other = pf.CellVariable(m, rng.uniform(-1, 1, size=tuple(m.dims)))
    partner = None       # a second variable sharing phi.BCs
    views, vviews = [], []
    log = []
    for step in range(nops):
        op = int(rng.integers(0, 14))
        tag = "%s seed=%d step=%d op=%d log=%s" % (type(m).__name__, seed,
                                                   step, op, log[-8:])
        log.append(op)
        if op in (0, 1):
            edit_bc(phi.BCs, m, rng, views)
        elif op == 2:
            edit_value(phi, rng, vviews)
        elif op == 3:
            phi.update_value(other)
            same(phi._value, other._value, tag + " update_value")
            snap = np.array(other._value)
            edit_value(phi, rng, [])
            phi.value = phi.value - 0.25
            same(other._value, snap, tag + " update_value aliases source")
            snap = np.array(phi._value)
            other.value = other.value + 0.5
            same(phi._value, snap, tag + " update_value aliases target")
        elif op == 4:
            old = phi
            phi = phi.copy()
            other = old
            partner = None
            # the copy must be independent of the original
            before = np.array(old._value)
            phi.value = phi.value + 1.0
            edit_bc(phi.BCs, m, rng, [])
            same(old._value, before, tag + " copy independent")
        elif op == 5:
            choice = rng.integers(0, 4)
            old = phi
            if choice == 0:
                phi = 2.0*phi - other
            elif choice == 1:
                phi = abs(phi) + 0.5
            elif choice == 2:
                phi = pf.funceval(np.tanh, phi)
            else:
                phi = (phi*other)/(1.0 + other*other)
            other = old
            partner = None
        elif op == 6:         # share the BC object with a second variable
            partner = pf.CellVariable(m, rng.uniform(-1, 1, size=tuple(m.dims)),
                                      phi.BCs)
        elif op == 7 and partner is not None:   # edit through the partner
            edit_bc(partner.BCs, m, rng, views)
            if rng.integers(0, 2):
                partner = do_implicit_and_compare(partner, tag + " partner", step)
        elif op == 8 and partner is not None:
            partner = do_apply_and_compare(partner, tag + " partner")
        elif op in (9, 10):
            phi = do_implicit_and_compare(phi, tag, step)
        elif op == 11:
            old = phi
            phi = do_explicit_and_compare(phi, tag, step)
            if rng.integers(0, 2):
                partner = old      # old and new share one BCs object
        elif op == 12:
            phi = do_apply_and_compare(phi, tag)
        elif op == 13:
            # a failing call, then a retry
            def bad(M, RHS):
                raise RuntimeError("solver failed")
            snapshot = np.array(phi.value)
            try:
                implicit(phi, step, externalsolver=bad)
            except RuntimeError:
                pass
            else:
                raise AssertionError("external solver exception swallowed")
            same(phi.value, snapshot, tag + " failed solve changed values")
    # every history ends with both kinds of solve
    tag = "%s seed=%d final log=%s" % (type(m).__name__, seed, log)
    if partner is not None:
        do_implicit_and_compare(partner, tag + " partner", 99)
    out = do_explicit_and_compare(phi, tag, 98)
    do_implicit_and_compare(out, tag + " explicit->implicit", 97)
    do_implicit_and_compare(phi, tag, 96)


def histories(nseeds=12, nops=24):
    for name, m in meshes():
        for seed in range(nseeds):
            run_history(m, 1000 + seed, nops, pass_bcs=bool(seed % 2))


# ---------------------------------------------------------------------------
# C14: algebra
# ---------------------------------------------------------------------------

def check_algebra():
    import operator as op
    binops = [op.add, op.sub, op.mul, op.truediv, op.pow,
              op.gt, op.ge, op.lt, op.le, op.and_, op.or_]
    for name, m in meshes():
        rng = np.random.default_rng(7)
        shape = tuple(m.dims)
        bcx = pf.BoundaryConditions(m)
        bcx.left.fixedValue(1.5)
        bcx.right.a[...] = 1.0
        bcx.right.b[...] = 3.3
        bcx.right.c[...] = 0.25
        if not radial(m) and ndim(m) > 1:
            bcx.top.periodic = True
        x = pf.CellVariable(m, rng.uniform(0.5, 2.0, size=shape), bcx)
        y = pf.CellVariable(m, rng.uniform(0.5, 2.0, size=shape))
        y.BCs.right.fixedValue(-1.0)
        arr = rng.uniform(0.5, 2.0, size=shape)
        x0, y0 = np.array(x._value), np.array(y._value)
        bx0, by0 = bc_state(x.BCs), bc_state(y.BCs)
        for f in binops:
            for lhs, rhs, carrier in ((x, y, x), (x, 1.7, x), (1.7, x, x),
                                      (x, arr, x), (y, x, y), (x, 2, x)):
                if f in (op.and_, op.or_) and not isinstance(lhs, pf.CellVariable):
                    continue
                what = "%s %s %s %s" % (name, f.__name__, type(lhs).__name__,
                                        type(rhs).__name__)
                r = f(lhs, rhs)
                assert type(r) is pf.CellVariable, what
                lv = lhs.value if isinstance(lhs, pf.CellVariable) else lhs
                rv = rhs.value if isinstance(rhs, pf.CellVariable) else rhs
                if f is op.and_:
                    expect = np.logical_and(lv, rv)
                elif f is op.or_:
                    expect = np.logical_or(lv, rv)
                else:
                    expect = f(np.asarray(lv), np.asarray(rv))
                close(r.value, expect, what + " elementwise")
                # operands untouched
                same(x._value, x0, what + " operand x")
                same(y._value, y0, what + " operand y")
                bc_state_equal(bc_state(x.BCs), bx0, what + " x.BCs")
                bc_state_equal(bc_state(y.BCs), by0, what + " y.BCs")
                # BCs of the left-most variable operand, ghosts consistent
                assert r.BCs is not carrier.BCs
                bc_state_equal(bc_state(r.BCs), bc_state(carrier.BCs), what)
                close(r._value, fresh_like(r)._value, what + " ghosts")
                # independence in both directions
                r.value = 9.0
                r.BCs.left.fixedValue(-3.0)
                r.BCs.right.c[...] = 5.0
                same(x._value, x0, what + " x after editing result")
                same(y._value, y0, what + " y after editing result")
                bc_state_equal(bc_state(x.BCs), bx0, what + " x.BCs/result")
                bc_state_equal(bc_state(y.BCs), by0, what + " y.BCs/result")
        for f in (op.neg, abs, lambda v: pf.funceval(np.exp, v),
                  lambda v: pf.celleval(np.sqrt, v),
                  lambda v: pf.funceval(np.hypot, v, y)):
            r = f(x)
            same(x._value, x0, name + " unary operand")
            bc_state_equal(bc_state(r.BCs), bx0, name + " unary BCs")
            close(r._value, fresh_like(r)._value, name + " unary ghosts")
        close((-x).value, -x.value)
        close(abs(x - 1.0).value, np.abs(x.value - 1.0))
        close(pf.funceval(np.hypot, x, y).value, np.hypot(x.value, y.value))
        # editing an operand afterwards does not reach an earlier result
        r = x + y
        rv = np.array(r._value)
        rb = bc_state(r.BCs)
        x.value = 0.0
        x.BCs.left.fixedValue(8.0)
        same(r._value, rv, name + " result after editing operand")
        bc_state_equal(bc_state(r.BCs), rb, name + " result BCs after edit")
        # the result takes part in solves like a fresh variable
        do_implicit_and_compare(r, name + " algebra result")
        do_implicit_and_compare(x, name + " edited operand")
        # FaceVariable algebra keeps working with CellVariable storage
        fv = pf.linearMean(y)
        gv = 2.0*fv + fv*fv - fv/3.0
        for comp in ("_xvalue", "_yvalue", "_zvalue"):
            a = getattr(fv, comp)
            if np.size(a):
                close(getattr(gv, comp), 2.0*a + a*a - a/3.0, name + comp)


def check_copy():
    for name, m in meshes():
        rng = np.random.default_rng(11)
        c = pf.CellVariable(m, rng.uniform(-1, 1, size=tuple(m.dims)))
        c.BCs.left.fixedValue(2.0)
        c.BCs.right.fixedGradient(0.5)
        c.value[...] = rng.uniform(-1, 1, size=tuple(m.dims))  # stale ghosts
        cc = c.copy()
        assert type(cc) is pf.CellVariable
        assert cc.domain is c.domain and cc.BCs is not c.BCs
        same(cc._value, c._value, name + " copy equal incl. ghost cells")
        bc_state_equal(bc_state(cc.BCs), bc_state(c.BCs), name + " copy BCs")
        assert not np.shares_memory(cc._value, c._value)
        for f in FACES[ndim(m)]:
            for k in "abc":
                assert not np.shares_memory(getattr(getattr(cc.BCs, f), k),
                                            getattr(getattr(c.BCs, f), k))
        c0, b0 = np.array(c._value), bc_state(c.BCs)
        cc.value = 4.0
        cc.BCs.left.fixedValue(-7.0)
        do_implicit_and_compare(cc, name + " copy solve")
        same(c._value, c0, name + " original after editing/solving copy")
        bc_state_equal(bc_state(c.BCs), b0, name + " original BCs")
        cc0, cb0 = np.array(cc._value), bc_state(cc.BCs)
        c.value = -4.0
        c.BCs.right.fixedValue(1.0)
        do_implicit_and_compare(c, name + " original solve")
        same(cc._value, cc0, name + " copy after editing/solving original")
        bc_state_equal(bc_state(cc.BCs), cb0, name + " copy BCs")
        # deepcopy: independent and equivalent
        d = copy.deepcopy(c)
        same(d._value, c._value)
        d.BCs.left.fixedValue(3.0)
        d.value[...] = 1.0
        do_implicit_and_compare(d, name + " deepcopy solve")
        do_implicit_and_compare(c, name + " original after deepcopy")
        # copy of an explicit-solver result is usable by the implicit solver
        e = explicit(c, 3).copy()
        do_implicit_and_compare(e, name + " copy of explicit result")


def run_common(nseeds=12, nops=24):
    histories(nseeds, nops)
    check_algebra()
    check_copy()


# ---------------------------------------------------------------------------
# specific to refactoring 2: the `value` property (getter / setter) and
# NumPy integration of a CellVariable on every grid class
# ---------------------------------------------------------------------------

class MyGrid1D(pf.Grid1D):
    """user-defined mesh class derived from a PyFVTool 1D mesh"""
    pass


def check_value_property():
    allm = meshes()
    # interleave the grid classes, highest dimension first
    order = sorted(range(len(allm)), key=lambda i: (-ndim(allm[i][1]), i % 3))
    made = []
    for i in order + order[::-1]:
        name, m = allm[i]
        made.append((name, m, pf.CellVariable(m, float(i))))
    for name, m, c in made:
        shape = tuple(m.dims)
        inner = (slice(1, -1),)*ndim(m)
        v = c.value
        assert type(v) is TrackedArray and v.shape == shape, name
        assert np.shares_memory(v, c._value) and v.base is c._value, name
        same(v, np.asarray(c._value)[inner], name + " getter")
        assert c.value is not c.value       # a new view on each access
        # setter: scalar, full array, broadcast, python list, CellVariable
        rng = np.random.default_rng(3)
        ghosts = np.array(c._value)
        for new in (2.5, rng.uniform(size=shape), rng.uniform(size=shape[-1:]),
                    rng.uniform(size=shape).tolist(), 7,
                    pf.CellVariable(m, rng.uniform(size=shape)),
                    rng.integers(0, 5, size=shape), rng.uniform(size=shape) > 0.5):
            c.apply_BCs()
            assert not c.value.modified
            ghosts = np.array(c._value)
            c.value = new
            assert c.value.modified, name
            expect = np.broadcast_to(np.asarray(new, dtype=float), shape)
            same(c.value, expect, name + " setter")
            ghosts[inner] = expect
            same(c._value, ghosts, name + " setter leaves ghost cells alone")
            assert c._value.dtype == np.float64
        # item assignment / augmented assignment through the getter
        c.apply_BCs()
        c.value[(0,)*ndim(m)] = -1.0
        assert c.value.modified and c._value[(1,)*ndim(m)] == -1.0
        c.apply_BCs()
        before = np.array(c.value)
        c.value += 1.0
        assert c.value.modified
        same(c.value, before + 1.0, name + " +=")
        # failing assignment: error type, nothing changed, flag not raised
        c.apply_BCs()
        before = np.array(c._value)
        bad_shape = tuple(n + 1 for n in shape)
        for bad in (np.zeros(bad_shape), "abc"):
            try:
                c.value = bad
            except ValueError:
                pass
            else:
                raise AssertionError("bad value accepted")
            same(c._value, before, name + " failed setter")
            assert not c.value.modified
        # NumPy integration (__array__)
        a = np.asarray(c)
        assert type(a) is np.ndarray and a.shape == shape
        same(a, c.value)
        assert np.shares_memory(a, c._value)
        same(np.array(c, dtype=int), np.asarray(c.value).astype(int))
        close(np.sin(c), np.sin(np.asarray(c.value)))
        close(np.sum(c), np.asarray(c.value).sum())
        close(c.domainIntegral(), (m.cellvolume*np.asarray(c.value)).sum())
        # deep copies and copies read and write their own storage
        for twin in (copy.deepcopy(c), c.copy(), c + 0.0):
            assert twin.value.shape == shape
            assert not np.shares_memory(twin.value, c._value)
            twin.value = 11.0
            assert np.all(twin.value == 11.0) and not np.any(c.value == 11.0)
        # a variable keeps working when its mesh is replaced by an equivalent
        # mesh object (of the same or of a related class)
        c2 = pf.CellVariable(m, 1.0)
        c2.domain = copy.deepcopy(m)
        c2.value = 2.0
        assert c2.value.shape == shape and np.all(c2.value == 2.0)
        do_implicit_and_compare(c, name + " value property")
    c1 = pf.CellVariable(pf.Grid1D(5, 1.0), 1.0)
    c1.domain = pf.CylindricalGrid1D(5, 1.0)
    c1.value = 3.0
    assert c1.value.shape == (5,) and np.all(c1.value == 3.0)
    # user-defined subclass of a mesh class
    mg = MyGrid1D(6, 2.0)
    u = pf.CellVariable(mg, np.linspace(0.0, 1.0, 6))
    u.BCs.left.fixedValue(1.0)
    u.value[2:4] = 5.0
    same(u.value, [0.0, 0.2, 5.0, 5.0, 0.8, 1.0])
    u.value = 0.5
    terms = [pf.transientTerm(u, 0.1, 1.0),
             pf.constantSourceTerm(pf.CellVariable(mg, 1.0))]
    ref = fresh_like(u)
    rterms = [pf.transientTerm(ref, 0.1, 1.0),
              pf.constantSourceTerm(pf.CellVariable(mg, 1.0))]
    pf.solvePDE(ref, rterms)
    pf.solvePDE(u, terms)
    close(u._value, ref._value, "user mesh subclass")
    # constructor: wrong number of dimensions still fails the same way
    for args in ((pf.Grid2D(5, 5, 1.0, 1.0), np.zeros(7)),):
        try:
            pf.CellVariable(*args)
        except IndexError:
            pass
        else:
            raise AssertionError("1D ghost array accepted for a 2D mesh")
    try:
        pf.CellVariable(pf.Grid2D(4, 3, 1.0, 1.0), np.zeros((4, 4)))
    except ValueError:
        pass
    else:
        raise AssertionError("wrong shape accepted")


if __name__ == "__main__":
    check_value_property()
    run_common()
    print("check 2 OK (%d comparisons) using %s" % (NCHECKS[0], pf.__file__))
