import copy
import operator
import sys

import numpy as np
import pyfvtool as pf

# --------------------------------------------------------------------------
# shared scaffolding (meshes, boundary conditions, snapshots)
# --------------------------------------------------------------------------

FACES = ('left', 'right', 'bottom', 'top', 'back', 'front')
NCHECK = [0]


def ok(cond, msg):
    NCHECK[0] += 1
    if not cond:
        raise AssertionError(msg)


def same(a, b):
    a = np.asarray(a)
    b = np.asarray(b)
    return a.shape == b.shape and np.array_equal(a, b, equal_nan=True)


def close(a, b, rtol=1e-9, atol=1e-11):
    a = np.asarray(a, dtype=float)
    b = np.asarray(b, dtype=float)
    return a.shape == b.shape and np.allclose(a, b, rtol=rtol, atol=atol)


def all_meshes():
    xf = np.array([0.0, 0.1, 0.25, 0.5, 0.7, 1.0])
    rf = np.array([0.2, 0.3, 0.55, 0.8, 1.3])
    yf = np.array([0.0, 0.3, 0.5, 1.2])
    zf = np.array([0.0, 0.4, 1.0])
    tf = np.linspace(0.0, 2*np.pi, 5)
    return [
        ('Grid1D', pf.Grid1D(6, 1.5)),
        ('Grid1D-nonuniform', pf.Grid1D(xf)),
        ('CylindricalGrid1D', pf.CylindricalGrid1D(rf)),
        ('SphericalGrid1D', pf.SphericalGrid1D(5, 2.0)),
        ('Grid2D', pf.Grid2D(xf, yf)),
        ('CylindricalGrid2D', pf.CylindricalGrid2D(rf, yf)),
        ('PolarGrid2D', pf.PolarGrid2D(rf, tf)),
        ('Grid3D', pf.Grid3D(xf[:4], yf, zf)),
        ('CylindricalGrid3D', pf.CylindricalGrid3D(3, 4, 2, 1.0, 2*np.pi, 1.0)),
        ('SphericalGrid3D', pf.SphericalGrid3D(3, 4, 3, 1.0, np.pi, 2*np.pi)),
    ]


def used_faces(mesh):
    return FACES[:2*len(mesh.dims)]


def random_BCs(mesh, rng, kind='robin'):
    """kind: 'robin' (all faces a,b,c random), 'dirichlet', 'default',
    'periodic-one-side' (periodic flag on the left face only; other
    directions Robin)."""
    bc = pf.BoundaryConditions(mesh)
    if kind == 'default':
        return bc
    for i, name in enumerate(used_faces(mesh)):
        face = getattr(bc, name)
        shp = face.a.shape
        if kind == 'dirichlet':
            face.a[:] = 0.0
            face.b[:] = 1.0
            face.c[:] = rng.uniform(0.5, 2.0, size=face.c.shape)
        else:
            # keep a/dx and b/2 well separated: a small, b large, one sign
            face.a[:] = rng.uniform(0.01, 0.03, size=shp)
            face.b[:] = rng.uniform(1.0, 2.0, size=face.b.shape)
            face.c[:] = rng.uniform(-1.0, 1.0, size=face.c.shape)
    if kind == 'periodic-one-side':
        # radial directions cannot be periodic
        if type(mesh) in (pf.Grid1D, pf.Grid2D, pf.Grid3D):
            bc.left.periodic = True
        elif len(mesh.dims) > 1:
            bc.bottom.periodic = True
    return bc


def snap_bc(bc):
    out = {}
    for name in FACES:
        f = getattr(bc, name)
        out[name] = (np.array(f.a), np.array(f.b), np.array(f.c),
                     bool(f.periodic))
    return out


def bc_equal(s1, s2):
    for name in FACES:
        a1, b1, c1, p1 = s1[name]
        a2, b2, c2, p2 = s2[name]
        if not (same(a1, a2) and same(b1, b2) and same(c1, c2) and p1 == p2):
            return False
    return True


def snap_cell(v):
    return (np.array(v._value), snap_bc(v.BCs))


def cell_equal(s1, s2):
    return same(s1[0], s2[0]) and bc_equal(s1[1], s2[1])


def snap_face(f):
    return tuple(np.array(c) for c in (f._xvalue, f._yvalue, f._zvalue))


def face_equal(s1, s2):
    return all(same(a, b) for a, b in zip(s1, s2))


def rand_cell(mesh, rng, kind='robin', lo=0.5, hi=2.0, integer=False):
    vals = rng.uniform(lo, hi, size=tuple(mesh.dims))
    if integer:
        vals = rng.integers(1, 5, size=tuple(mesh.dims))
    return pf.CellVariable(mesh, vals, random_BCs(mesh, rng, kind))


def fresh_like(v):
    """A variable rebuilt from scratch with the public constructor from the
    interior values and a deep copy of the boundary conditions of v."""
    return pf.CellVariable(v.domain, np.array(v.value),
                           copy.deepcopy(v.BCs))


def no_shared_memory_cells(u, v):
    if np.shares_memory(u._value, v._value):
        return False
    if u.BCs is v.BCs:
        return False
    for name in FACES:
        fu, fv = getattr(u.BCs, name), getattr(v.BCs, name)
        if fu is fv:
            return False
        for k in 'abc':
            if np.shares_memory(getattr(fu, k), getattr(fv, k)):
                return False
    return True


def independent_cells(res, operands, rng):
    """Cross-modification probes: changing res (values and BCs) leaves the
    operands alone and the other way round."""
    before_ops = [snap_cell(o) for o in operands]
    res.value[...] = res.value + 1.25
    res.BCs.left.a[:] = res.BCs.left.a + 0.5
    res.BCs.right.c[:] = 7.0
    res.BCs.left.periodic = not res.BCs.left.periodic
    res.BCs.left.periodic = not res.BCs.left.periodic
    for o, b in zip(operands, before_ops):
        if not cell_equal(snap_cell(o), b):
            return False
    before_res = snap_cell(res)
    for o in operands:
        o.value[...] = o.value * 0.5 + 3.0
        o.BCs.left.b[:] = o.BCs.left.b + 0.25
        o.BCs.right.a[:] = 0.125
    return cell_equal(snap_cell(res), before_res)


def ghosts_consistent(v):
    """Ghost cells of v agree with its interior values and its BCs."""
    ref = fresh_like(v)
    return same(ref._value, v._value)


def steady_terms(mesh, D, beta, src):
    """-div(D grad phi) + beta phi = src ; returns term list for solvePDE"""
    return [-pf.diffusionTerm(D), pf.linearSourceTerm(beta),
            pf.constantSourceTerm(src)]


class FailingSolver:
    """external solver that fails the first n calls"""
    def __init__(self, nfail=1):
        self.nfail = nfail
        self.calls = 0

    def __call__(self, M, RHS):
        from scipy.sparse.linalg import spsolve
        self.calls += 1
        if self.calls <= self.nfail:
            raise RuntimeError('external solver failed')
        return spsolve(M, RHS)

# --------------------------------------------------------------------------
# refactoring 1: funceval / celleval variadic, unary operators via funceval
# --------------------------------------------------------------------------

def interior(mesh, full):
    sl = tuple(slice(1, -1) for _ in mesh.dims)
    return np.asarray(full)[sl]


def weighted(*xs):
    out = 0.0
    for k, x in enumerate(xs):
        out = out + (k + 1.0) * x * x / (1.0 + k)
    return out + np.sin(xs[0])


def check_funceval_on(name, mesh, rng):
    for kind in ('default', 'robin', 'dirichlet', 'periodic-one-side'):
        for evalfun in (pf.funceval, pf.celleval):
            for nargs in range(1, 9):
                ops = [rand_cell(mesh, rng, kind if k == 0 else 'robin',
                                 integer=(k == 2))
                       for k in range(nargs)]
                before = [snap_cell(o) for o in ops]
                arrays = [np.array(o.value) for o in ops]
                res = evalfun(weighted, *ops)
                tag = f'{name}/{kind}/{evalfun.__name__}/{nargs}'
                ok(type(res) is pf.CellVariable, tag + ' result type')
                ok(res.domain is ops[0].domain, tag + ' domain')
                ok(same(res.value, weighted(*arrays)), tag + ' values')
                ok(all(cell_equal(snap_cell(o), b)
                       for o, b in zip(ops, before)), tag + ' operands changed')
                ok(bc_equal(snap_bc(res.BCs), before[0][1]), tag + ' BCs of first')
                ok(ghosts_consistent(res), tag + ' ghost cells')
                ok(all(no_shared_memory_cells(res, o) for o in ops),
                   tag + ' shared memory')
                ok(res._value.dtype == np.float64, tag + ' dtype')
                if nargs in (1, 3, 8):
                    ok(independent_cells(res, ops, rng), tag + ' independence')

        # the same variable several times, identity function, masks
        u = rand_cell(mesh, rng, kind)
        b = snap_cell(u)
        r = pf.funceval(lambda x, y, z: x + y * z, u, u, u)
        uv = interior(mesh, b[0])
        ok(same(r.value, uv + uv * uv), name + ' repeated operand')
        ident = pf.funceval(lambda x: x, u)
        ok(same(ident.value, u.value) and no_shared_memory_cells(ident, u),
           name + ' identity function must not alias')
        ok(same(ident._value, u._value), name + ' identity ghost cells')
        mask = pf.celleval(lambda x: x > 1.2, u)
        ok(same(mask.value, (np.array(u.value) > 1.2) * 1.0), name + ' mask')
        ok(cell_equal(snap_cell(u), b), name + ' operand changed (2)')
        ok(independent_cells(ident, [u], rng), name + ' identity independence')

        # unary operators
        u = rand_cell(mesh, rng, kind, lo=-2.0, hi=2.0)
        b = snap_cell(u)
        vals = np.array(u.value)
        for label, r, expect in (('neg', -u, -vals), ('abs', abs(u), np.abs(vals)),
                                 ('negneg', -(-u), vals),
                                 ('absneg', abs(-u), np.abs(vals))):
            tag = f'{name}/{kind}/{label}'
            ok(type(r) is pf.CellVariable, tag)
            ok(same(r.value, expect), tag + ' values')
            ok(bc_equal(snap_bc(r.BCs), b[1]), tag + ' BCs')
            ok(ghosts_consistent(r), tag + ' ghosts')
            ok(no_shared_memory_cells(r, u), tag + ' memory')
            ok(cell_equal(snap_cell(u), b), tag + ' operand changed')
        r = -u
        ok(independent_cells(r, [u], rng), name + ' neg independence')

    # arities outside 1..8 evaluate nothing
    u = rand_cell(mesh, rng)
    called = []
    ok(pf.funceval(lambda *a: called.append(1)) is None, name + ' arity 0')
    ok(pf.funceval(lambda *a: called.append(1), *([u] * 9)) is None,
       name + ' arity 9')
    ok(not called, name + ' f must not be called')

    # failing call followed by a retry
    u = rand_cell(mesh, rng)
    v = rand_cell(mesh, rng)
    b = (snap_cell(u), snap_cell(v))

    def bad(x, y):
        raise ZeroDivisionError('boom')
    try:
        pf.funceval(bad, u, v)
        ok(False, name + ' exception swallowed')
    except ZeroDivisionError:
        pass
    try:
        pf.funceval(np.add, u, 2.0)      # non-variable operand
        ok(False, name + ' scalar operand accepted')
    except AttributeError:
        pass
    ok(cell_equal(snap_cell(u), b[0]) and cell_equal(snap_cell(v), b[1]),
       name + ' operands changed by failing call')
    r = pf.funceval(np.add, u, v)
    ok(same(r.value, np.array(u.value) + np.array(v.value)), name + ' retry')


def check_shared_bc(name, mesh, rng):
    """two variables sharing one BoundaryConditions object; derived variable
    must own a private copy; later edits of the shared object reach both
    sharers but not the derived variable."""
    bc = random_BCs(mesh, rng, 'robin')
    u = pf.CellVariable(mesh, rng.uniform(0.5, 2, size=tuple(mesh.dims)), bc)
    v = pf.CellVariable(mesh, rng.uniform(0.5, 2, size=tuple(mesh.dims)), bc)
    w = pf.funceval(lambda x, y: x * y + 1.0, u, v)
    n = -v
    ok(w.BCs is not bc and n.BCs is not bc, name + ' shared BC object kept')
    w_before, n_before = snap_cell(w), snap_cell(n)
    bc.left.fixedValue(3.0)
    bc.right.a[:] = 0.02
    D = pf.FaceVariable(mesh, 0.7)
    beta = pf.CellVariable(mesh, 1.3)
    src = pf.funceval(lambda x: 1.0 + 0.1 * x, w)
    terms = steady_terms(mesh, D, beta, src)
    pf.solvePDE(u, terms)
    pf.solvePDE(v, terms)
    ref = pf.CellVariable(mesh, 0.0, copy.deepcopy(bc))
    pf.solvePDE(ref, terms)
    ok(close(u._value, ref._value) and close(v._value, ref._value),
       name + ' sharers after BC edit')
    ok(cell_equal(snap_cell(w), w_before) and cell_equal(snap_cell(n), n_before),
       name + ' derived variable followed the shared BC object')
    # derived variables are full solution variables
    pf.solvePDE(w, terms)
    ref2 = pf.CellVariable(mesh, 0.0, copy.deepcopy(w.BCs))
    pf.solvePDE(ref2, terms)
    ok(close(w._value, ref2._value), name + ' derived variable solved')
    # edit BCs of the derived variable, solve again, compare with fresh
    n.BCs.right.fixedValue(-1.0)
    pf.solvePDE(n, terms)
    ref3 = pf.CellVariable(mesh, 0.0, copy.deepcopy(n.BCs))
    pf.solvePDE(ref3, terms)
    ok(close(n._value, ref3._value), name + ' derived variable, edited BCs')
    dc = copy.deepcopy(n)
    ok(cell_equal(snap_cell(dc), snap_cell(n)) and no_shared_memory_cells(dc, n),
       name + ' deepcopy')
    cp = abs(n).copy()
    ok(same(cp.value, np.abs(np.array(n.value))), name + ' copy of abs')


def check_time_stepping(name, mesh, rng, kind):
    X = pf.cellLocations(mesh)
    X = X if isinstance(X, pf.CellVariable) else X[0]
    alpha = pf.funceval(lambda x: 1.0 + x * x, X)
    alpha2 = abs(-alpha)
    ok(same(alpha.value, alpha2.value), name + ' abs(-alpha)')
    D = pf.FaceVariable(mesh, 0.6)
    beta = pf.celleval(lambda x: 0.5 + 0.25 * np.cos(x), X)
    src = pf.funceval(lambda x, y: x + 0.3 * y, alpha, beta)
    bc = random_BCs(mesh, rng, kind)
    terms = steady_terms(mesh, D, beta, src)
    phi_s = pf.CellVariable(mesh, 0.0, bc)
    pf.solvePDE(phi_s, terms)
    steady = np.array(phi_s._value)
    scale = np.max(np.abs(steady))
    for al in (1.0, 3.5, alpha, alpha2):
        for dt in 10.0 ** np.arange(-6, 7, 2):
            old = phi_s.copy()
            new = phi_s.copy()
            solver = FailingSolver(1)
            tterms = [pf.transientTerm(old, dt, al)] + terms
            try:
                pf.solvePDE(new, tterms, externalsolver=solver)
                ok(False, name + ' failing solver swallowed')
            except RuntimeError:
                pass
            pf.solvePDE(new, tterms, externalsolver=solver)   # retry
            ok(np.max(np.abs(new._value - steady)) <= 1e-8 * scale,
               f'{name}/{kind}/dt={dt}: steady state not a fixed point')
            ok(same(old._value, steady), name + ' old field changed')
        # dt -> infinity and dt -> 0 from a random old field
        old = pf.CellVariable(mesh, rng.uniform(0.5, 2, size=tuple(mesh.dims)),
                              copy.deepcopy(bc))
        old_int = np.array(old.value)
        new = old.copy()
        pf.solvePDE(new, [pf.transientTerm(old, 1e13, al)] + terms)
        ok(np.max(np.abs(new.value - phi_s.value)) <= 1e-8 * scale,
           f'{name}/{kind}: dt->inf')
        new = old.copy()
        pf.solvePDE(new, [pf.transientTerm(old, 1e-13, al)] + terms)
        ok(np.max(np.abs(new.value - old_int)) <= 1e-8 * scale,
           f'{name}/{kind}: dt->0')
    # explicit step; result fed to the implicit solver
    old = pf.CellVariable(mesh, rng.uniform(0.5, 2, size=tuple(mesh.dims)),
                          copy.deepcopy(bc))
    b = snap_cell(old)
    RHS = pf.constantSourceTerm(-abs(src))
    dt = 1e-3
    new = pf.solveExplicitPDE(old, dt, RHS)
    ok(cell_equal(snap_cell(old), b), name + ' explicit: input changed')
    expect = np.array(old.value) + dt * interior(mesh, RHS.reshape(old._value.shape))
    ok(close(new.value, expect, rtol=1e-13, atol=0), name + ' explicit update')
    ok(ghosts_consistent(new), name + ' explicit: BCs re-imposed')
    ref = fresh_like(new)
    tt = [pf.transientTerm(new.copy(), 0.1, alpha)] + terms
    pf.solvePDE(new, tt)
    pf.solvePDE(ref, tt)
    ok(close(new._value, ref._value), name + ' explicit result in solvePDE')


def main():
    rng = np.random.default_rng(20240917)
    for name, mesh in all_meshes():
        check_funceval_on(name, mesh, rng)
        check_shared_bc(name, mesh, rng)
        for kind in ('dirichlet', 'robin', 'periodic-one-side'):
            check_time_stepping(name, mesh, rng, kind)
    print(f'check 1: {NCHECK[0]} assertions passed')


if __name__ == '__main__':
    main()
    sys.exit(0)
