# ---------------------------------------------------------------------------
# Common toolkit (duplicated verbatim in every check.py so that each script is
# standalone).  Only the public API of PyFVTool plus the documented per-grid
# builder functions of the sub-modules are used.
# ---------------------------------------------------------------------------
import copy
import sys
import warnings

import numpy as np
import scipy.sparse as sp
from scipy.sparse.linalg import spsolve

import pyfvtool as pf

warnings.simplefilter("ignore")
RNG = np.random.default_rng(20260924)
NCHECK = [0]


def ok(cond, msg):
    NCHECK[0] += 1
    if not cond:
        raise AssertionError(msg)


def faces(n, lo=0.1, hi=1.3):
    x = np.sort(RNG.uniform(lo, hi, n + 1))
    x[0] = lo
    x[-1] = hi
    return x


def meshes():
    """All 9 grid classes, each uniform and non-uniform."""
    return [
        ("Grid1D/u", pf.Grid1D(6, 1.5)),
        ("Grid1D/n", pf.Grid1D(faces(5))),
        ("Cylindrical1D/u", pf.CylindricalGrid1D(6, 1.5)),
        ("Cylindrical1D/n", pf.CylindricalGrid1D(faces(5))),
        ("Spherical1D/u", pf.SphericalGrid1D(6, 1.5)),
        ("Spherical1D/n", pf.SphericalGrid1D(faces(5))),
        ("Grid2D/u", pf.Grid2D(4, 3, 1.0, 2.0)),
        ("Grid2D/n", pf.Grid2D(faces(3), faces(4))),
        ("Cylindrical2D/u", pf.CylindricalGrid2D(4, 3, 1.0, 2.0)),
        ("Cylindrical2D/n", pf.CylindricalGrid2D(faces(3), faces(4))),
        ("Polar2D/u", pf.PolarGrid2D(4, 3, 1.0, 2 * np.pi)),
        ("Polar2D/n", pf.PolarGrid2D(faces(3), faces(4, 0.0, 6.0))),
        ("Grid3D/u", pf.Grid3D(3, 2, 4, 1.0, 2.0, 3.0)),
        ("Grid3D/n", pf.Grid3D(faces(2), faces(3), faces(2))),
        ("Cylindrical3D/u", pf.CylindricalGrid3D(3, 2, 4, 1.0, 2 * np.pi, 3.0)),
        ("Cylindrical3D/n", pf.CylindricalGrid3D(faces(2), faces(3, 0.0, 6.0), faces(2))),
        ("Spherical3D/u", pf.SphericalGrid3D(3, 2, 4, 1.0, np.pi, 2 * np.pi)),
        ("Spherical3D/n", pf.SphericalGrid3D(faces(2), faces(3, 0.3, 2.8), faces(2, 0.0, 6.0))),
    ]


SUFFIX = {"Grid1D": "1D", "CylindricalGrid1D": "Cylindrical1D",
          "SphericalGrid1D": "Spherical1D", "Grid2D": "2D",
          "CylindricalGrid2D": "Cylindrical2D", "PolarGrid2D": "Polar2D",
          "Grid3D": "3D", "CylindricalGrid3D": "Cylindrical3D",
          "SphericalGrid3D": "Spherical3D"}
FACE_NAMES = ("left", "right", "bottom", "top", "back", "front")
COMPS = ("_xvalue", "_yvalue", "_zvalue")


def ndim(m):
    return len(m.dims)


def per_grid(module, stem, m):
    return getattr(module, stem + SUFFIX[type(m).__name__])


def interior(m):
    return (slice(1, -1),) * ndim(m)


def interior_rows(m):
    return m.cell_numbers()[interior(m)].ravel()


def ghost_rows(m):
    mask = np.ones(int(np.prod(m.dims + 2)), dtype=bool)
    mask[interior_rows(m)] = False
    return np.nonzero(mask)[0]


def noncorner_rows(m):
    """interior cells + ghost cells that touch the domain through a face"""
    cnt = np.zeros(tuple(m.dims + 2), dtype=int)
    for ax in range(ndim(m)):
        idx = [slice(None)] * ndim(m)
        for s in (0, -1):
            idx[ax] = s
            cnt[tuple(idx)] += 1
    return np.nonzero(cnt.ravel() <= 1)[0]


# ----------------------------- snapshots -----------------------------------
def _b(a):
    a = np.asarray(a)
    return (str(a.dtype), a.shape, np.ascontiguousarray(a).tobytes())


def snap_mesh(m):
    out = {"dims": _b(m.dims)}
    for grp in ("cellsize", "cellcenters", "facecenters"):
        g = getattr(m, grp)
        for c in ("_x", "_y", "_z"):
            out[grp + c] = _b(getattr(g, c))
    return out


def snap_bcs(bc):
    out = {}
    for f in FACE_NAMES:
        face = getattr(bc, f)
        out[f] = (_b(face.a), _b(face.b), _b(face.c), bool(face.periodic))
    return out


def snap(x):
    if isinstance(x, pf.FaceVariable):
        return ("FV", id(x.domain), tuple(_b(getattr(x, c)) for c in COMPS))
    if isinstance(x, pf.CellVariable):
        return ("CV", id(x.domain), _b(x._value), snap_bcs(x.BCs))
    if sp.issparse(x):
        return ("SP", x.shape, _b(x.data), _b(x.indices), _b(x.indptr))
    if isinstance(x, (tuple, list)):
        return tuple(snap(y) for y in x)
    if isinstance(x, np.ndarray):
        return ("ND",) + _b(x)
    if hasattr(x, "cellsize"):
        return ("MESH", snap_mesh(x))
    if hasattr(x, "left") and hasattr(x, "front"):
        return ("BC", snap_bcs(x))
    raise TypeError(type(x))


def arrays_of(x):
    """all ndarray buffers reachable from a builder input / output"""
    if isinstance(x, pf.FaceVariable):
        return [getattr(x, c) for c in COMPS]
    if isinstance(x, pf.CellVariable):
        return [x._value]
    if sp.issparse(x):
        return [x.data, x.indices, x.indptr]
    if isinstance(x, (tuple, list)):
        return [a for y in x for a in arrays_of(y)]
    if isinstance(x, np.ndarray):
        return [x]
    if hasattr(x, "cellsize"):
        return [getattr(getattr(x, g), c) for g in ("cellsize", "cellcenters", "facecenters")
                for c in ("_x", "_y", "_z")]
    return []


def pure_call(what, fn, *args):
    """C15: call a builder twice; inputs (and their meshes) byte-unchanged,
    results bit-identical, result buffers alias neither inputs nor the mesh."""
    watched = list(args) + [a.domain for a in args if hasattr(a, "domain")]
    watched = [w for w in watched if not callable(w)]
    before = [snap(w) for w in watched]
    r1 = fn(*args)
    mid = [snap(w) for w in watched]
    r2 = fn(*args)
    after = [snap(w) for w in watched]
    ok(before == mid == after, what + ": an input was modified")
    ok(snap(r1) == snap(r2), what + ": repeated call not bit-identical")
    ins = [a for w in watched for a in arrays_of(w) if a.size]
    for o in arrays_of(r1):
        for i in ins:
            ok(not np.shares_memory(o, i), what + ": result aliases an input/mesh array")
    for o1 in arrays_of(r1):
        for o2 in arrays_of(r2):
            if o1.size:
                ok(not np.shares_memory(o1, o2), what + ": two calls share storage")
    return r1


def close(a, b, what, rtol=1e-10):
    a = np.asarray(a, dtype=float)
    b = np.asarray(b, dtype=float)
    ok(a.shape == b.shape, what + ": shape %s vs %s" % (a.shape, b.shape))
    scale = max(1.0, float(np.max(np.abs(b))) if b.size else 1.0)
    err = float(np.max(np.abs(a - b))) if a.size else 0.0
    ok(err <= rtol * scale, what + ": max abs err %.3e (scale %.3e)" % (err, scale))


def interior_only(what, m, term):
    """C04: a term contributes to interior-cell equations only"""
    g = ghost_rows(m)
    if sp.issparse(term):
        t = sp.csr_array(term)
        ok(t.shape == (np.prod(m.dims + 2),) * 2, what + ": matrix shape")
        ok(np.all(np.diff(t.indptr)[g] == 0), what + ": matrix has entries in ghost rows")
    else:
        ok(term.shape == (np.prod(m.dims + 2),), what + ": vector shape")
        ok(np.all(term[g] == 0.0), what + ": vector has entries in ghost rows")


# ----------------------------- variables -----------------------------------
def rand_face(m, kind="mixed"):
    f = pf.FaceVariable(m, 1.0)
    for c in COMPS:
        a = getattr(f, c)
        if a.size == 0:
            continue
        if kind == "mixed":          # both signs, exact zeros and a -0.0
            v = RNG.normal(size=a.shape)
            v[RNG.random(a.shape) < 0.25] = 0.0
            v.flat[0] = -0.0
        elif kind == "int":
            v = RNG.integers(-2, 3, size=a.shape)
        elif kind == "pos":
            v = RNG.uniform(0.2, 1.5, size=a.shape)
        elif kind == "neg":
            v = -RNG.uniform(0.2, 1.5, size=a.shape)
        setattr(f, c, v)
    return f


def used_faces(m):
    return FACE_NAMES[0:2 * ndim(m)]


def rand_bcs(m, periodic=()):
    """Robin / Dirichlet mix on every used face; faces listed in `periodic`
    get the periodic flag (one side only is enough for the library)."""
    bc = pf.BoundaryConditions(m)
    for k, f in enumerate(used_faces(m)):
        face = getattr(bc, f)
        if k % 2 == 0:
            face.a[:] = 0.0
            face.b[:] = 1.0
            face.c[:] = RNG.uniform(0.5, 1.5, size=face.c.shape)
        else:
            face.a[:] = RNG.uniform(0.5, 1.0, size=face.a.shape)
            face.b[:] = RNG.uniform(0.5, 1.0, size=face.b.shape)
            face.c[:] = RNG.uniform(-1.0, 1.0, size=face.c.shape)
    for f in periodic:
        getattr(bc, f).periodic = True
    return bc


def rand_cell(m, bc=None, kind="float"):
    shp = tuple(m.dims)
    if kind == "float":
        v = RNG.uniform(0.5, 2.0, size=shp)
    elif kind == "int_ghost":       # integer array including the ghost cells
        v = RNG.integers(0, 5, size=tuple(m.dims + 2))
    elif kind == "float_ghost":
        v = RNG.normal(size=tuple(m.dims + 2))
    if bc is None:
        return pf.CellVariable(m, v)
    return pf.CellVariable(m, v, bc)


def fresh_twin(phi):
    """a freshly built variable equivalent to phi (own copy of the BCs)"""
    return pf.CellVariable(phi.domain, np.array(phi._value, dtype=phi._value.dtype),
                           copy.deepcopy(phi.BCs))


# ----------------------------- solving --------------------------------------
def assemble(phi, terms):
    """hand-assembled system: boundary equations + sum of the terms"""
    M, RHS = pf.boundaryConditionsTerm(phi.BCs)
    M = sp.csr_array(M, copy=True)
    RHS = np.array(RHS, dtype=float, copy=True)
    for t in terms:
        if isinstance(t, tuple):
            M = M + t[0]
            RHS = RHS + t[1]
        elif t.ndim == 2:
            M = M + t
        else:
            RHS = RHS + t
    return sp.csr_array(M), RHS


def checked_solve(what, phi, terms, externalsolver=None):
    """C04 + C15 around one solvePDE call."""
    m = phi.domain
    tb = snap(terms)
    mb = snap(m)
    bb = snap(phi.BCs)
    if externalsolver is None:
        ret = pf.solvePDE(phi, terms)
    else:
        ret = pf.solvePDE(phi, terms, externalsolver=externalsolver)
    ok(ret is phi, what + ": solvePDE must return the variable it was given")
    ok(snap(terms) == tb, what + ": solvePDE modified a term")
    ok(snap(m) == mb, what + ": solvePDE modified the mesh")
    ok(snap(phi.BCs) == bb, what + ": solvePDE modified the boundary conditions")
    M, RHS = assemble(phi, terms)
    ref = pf.solveMatrixPDE(m, M, RHS)
    close(phi.value, ref.value, what + ": differs from solveMatrixPDE of the hand-assembled system", 1e-9)
    # the interior values stored in phi satisfy every equation of the system
    # (ghost unknowns taken from the raw solution of the same system) ...
    x = np.array(ref._value, dtype=float)
    x[interior(m)] = phi.value
    x = x.ravel()
    scale = max(1.0, float(np.max(np.abs(RHS))), float(abs(M).max()) * float(np.max(np.abs(x))))
    res = M @ x - RHS
    ok(np.max(np.abs(res)) <= 1e-9 * scale, what + ": residual %.3e" % np.max(np.abs(res)))
    # ... and without periodic faces the ghost cells stored in phi do as well
    if not any(getattr(phi.BCs, f).periodic for f in used_faces(m)):
        res = M @ np.asarray(phi._value, dtype=float).ravel() - RHS
        for rows, lab in ((interior_rows(m), "interior"), (noncorner_rows(m), "boundary-equation")):
            ok(np.max(np.abs(res[rows])) <= 1e-9 * scale,
               what + ": %s residual %.3e" % (lab, np.max(np.abs(res[rows]))))
    ok(snap(phi.BCs) == bb, what + ": solveMatrixPDE modified the boundary conditions")
    return phi


class FlakySolver:
    """external solver that fails on its first call, then records its input"""

    def __init__(self):
        self.calls = 0
        self.seen = None

    def __call__(self, A, b):
        self.calls += 1
        if self.calls == 1:
            raise RuntimeError("solver backend not available")
        self.seen = (sp.csr_array(A, copy=True), np.array(b, copy=True))
        return spsolve(A, b)


def retry_after_failure(what, phi, terms):
    """failed external solve leaves everything usable; the retry sees exactly
    the hand-assembled system and gives the default solver's answer"""
    phi.apply_BCs()
    twin = fresh_twin(phi)
    before = snap(phi)
    tb = snap(terms)
    solver = FlakySolver()
    try:
        pf.solvePDE(phi, terms, externalsolver=solver)
        ok(False, what + ": exception of the external solver was swallowed")
    except RuntimeError:
        pass
    ok(snap(phi) == before, what + ": failed solve changed the variable")
    ok(snap(terms) == tb, what + ": failed solve changed a term")
    checked_solve(what + " (retry)", phi, terms, externalsolver=solver)
    M, RHS = assemble(twin, terms)
    ok(solver.seen is not None and solver.calls == 2, what + ": external solver not used")
    ok(np.array_equal(solver.seen[0].toarray(), M.toarray()) and np.array_equal(solver.seen[1], RHS),
       what + ": external solver did not receive the assembled system")
    checked_solve(what + " (twin)", twin, terms)
    close(phi._value, twin._value, what + ": retry differs from fresh default solve", 1e-9)
# ---------------------------------------------------------------------------

# ===========================================================================
# Refactoring 2: placement of the divergence on the interior rows
# (calculus.divergenceTerm* on all grid classes).
# ===========================================================================
from pyfvtool import calculus as calc

SUPERBEE = pf.fluxLimiter("SUPERBEE")
# grid classes on which the library's divergence and diffusion operators are
# discretely consistent (checked on the unmodified library)
CONSISTENT = (pf.Grid1D, pf.CylindricalGrid1D, pf.Grid2D, pf.CylindricalGrid2D,
              pf.Grid3D, pf.CylindricalGrid3D, pf.SphericalGrid3D)


def first(r):
    return r[0] if isinstance(r, tuple) else r


def face_like(m, fn):
    """FaceVariable whose components are fn(component index, template array)"""
    f = pf.FaceVariable(m, 0.0)
    for k, c in enumerate(COMPS):
        a = getattr(f, c)
        setattr(f, c, fn(k, a) if a.size else np.array([]))
    return f


def combine(a, fa, b, fb):
    return face_like(a.domain, lambda k, t: fa * getattr(a, COMPS[k]) + fb * getattr(b, COMPS[k]))


def test_divergence(name, m):
    div = per_grid(calc, "divergenceTerm", m)
    n = ndim(m)
    G = m.cell_numbers()
    ntot = int(np.prod(m.dims + 2))
    F = rand_face(m, "mixed")
    H = rand_face(m, "mixed")

    R = pure_call(name + " divergenceTerm*", div, F)
    tot = first(R)
    ok(type(tot) is np.ndarray and tot.dtype == np.float64 and tot.shape == (ntot,), name + ": RHS type/shape")
    ok(tot.flags.writeable and tot.flags.c_contiguous, name + ": RHS must be an ordinary writable vector")
    interior_only(name + " divergence", m, tot)
    if n == 1:
        ok(not isinstance(R, tuple), name + ": 1D divergence returns a single vector")
    else:
        ok(isinstance(R, tuple) and len(R) == n + 1, name + ": (total, x, y[, z]) expected")
        acc = R[1]
        for part in R[2:]:
            acc = acc + part
            interior_only(name + " divergence part", m, part)
        ok(np.array_equal(tot, acc), name + ": total != sum of the directional parts")
    ok(snap(pure_call(name + " divergenceTerm", pf.divergenceTerm, F)) == snap(tot),
       name + ": public divergenceTerm != per-grid function")

    # the result is a private, independent vector: editing it in place (as
    # `RHS += ...` in solvePDE or a user would do) changes nothing else
    again = first(div(F))
    tot += 1.0
    ok(snap(first(div(F))) == snap(again), name + ": editing a returned vector leaked into the builder")
    tot -= 1.0

    # linear in the flux
    close(first(div(combine(F, 2.0, H, -0.5))), 2.0 * again - 0.5 * first(div(H)), name + ": not linear", 1e-11)

    # integer flux arrays give exactly the float result
    Fi = rand_face(m, "int")
    Ff = face_like(m, lambda k, t: getattr(Fi, COMPS[k]).astype(float))
    ok(np.array_equal(first(pure_call(name + " divergence(int)", div, Fi)), first(div(Ff))), name + ": integer flux")
    ok(Fi._xvalue.dtype.kind == "i", name + ": integer flux array was converted")

    # placement: a unit flux through one single face only reaches the (at
    # most two) cells adjacent to that face, at the rows given by the mesh
    # numbering: leaving the lower cell (+), entering the upper cell (-)
    for k in range(n):
        shape = getattr(F, COMPS[k]).shape
        for _ in range(6):
            pos = tuple(int(RNG.integers(0, s)) for s in shape)
            E = face_like(m, lambda kk, t: np.zeros(t.shape))
            getattr(E, COMPS[k])[pos] = 1.0
            r = first(div(E))
            expect = {}
            up = tuple(p + 1 for p in pos)                    # ghost-including index of the upper cell
            lo = tuple(p + 1 - (1 if a == k else 0) for a, p in enumerate(pos))
            if pos[k] < m.dims[k]:
                expect[int(G[up])] = -1
            if pos[k] > 0:
                expect[int(G[lo])] = +1
            nz = np.nonzero(r)[0]
            degenerate = (type(m) not in (pf.Grid1D, pf.Grid2D, pf.Grid3D) and k == 0
                          and m.facecenters._x[pos[0]] == 0.0)          # face on the axis r = 0
            degenerate = degenerate or (type(m) is pf.SphericalGrid3D and k == 1
                                        and abs(np.sin(m.facecenters._y[pos[1]])) < 1e-12)  # face on a pole
            if degenerate:
                ok(set(nz.tolist()) <= set(expect), name + ": unit flux reached a wrong row")
            else:
                ok(set(nz.tolist()) == set(expect), name + ": unit flux reached rows %s, expected %s"
                   % (nz.tolist(), sorted(expect)))
            for row in nz:
                ok(np.sign(r[row]) == expect[int(row)], name + ": wrong sign of the unit-flux divergence")
            if n > 1:
                parts = div(E)
                for kk in range(n):
                    ok((kk == k) or not np.any(parts[1 + kk]), name + ": flux in one direction changed another part")

    # Cartesian loop reference
    if type(m) in (pf.Grid1D, pf.Grid2D, pf.Grid3D):
        ref = np.zeros(tuple(m.dims + 2))
        sizes = [m.cellsize._x, m.cellsize._y, m.cellsize._z]
        for idx in np.ndindex(*tuple(m.dims)):
            val = 0.0
            for k in range(n):
                a = getattr(F, COMPS[k])
                hi = tuple(i + (1 if kk == k else 0) for kk, i in enumerate(idx))
                val = val + (a[hi] - a[idx]) / sizes[k][idx[k] + 1]
            ref[tuple(i + 1 for i in idx)] = val
        close(again, ref.ravel(), name + ": Cartesian loop reference", 1e-12)

    # discrete consistency  div(D grad phi) == diffusionTerm(D) phi  on interior rows
    if type(m) in CONSISTENT:
        phi = rand_cell(m, kind="float_ghost")
        D = rand_face(m, "pos")
        g = pure_call(name + " gradientTerm", pf.gradientTerm, phi)
        flux = face_like(m, lambda k, t: getattr(D, COMPS[k]) * getattr(g, COMPS[k]))
        rows = interior_rows(m)
        lap = pf.divergenceTerm(flux)
        ref = pf.diffusionTerm(D) @ np.asarray(phi._value).ravel()
        close(lap[rows], ref[rows], name + ": div(D grad phi) != diffusionTerm(D) phi", 1e-10)

    # a retained view of the flux stays valid and untouched
    view = F._xvalue[1:]
    keep = view.copy()
    pf.divergenceTerm(F)
    ok(np.array_equal(view, keep) and np.shares_memory(view, F._xvalue), name + ": retained view of F")


PERIODIC = {"Grid1D": ("left",), "Grid2D": ("top",), "CylindricalGrid2D": ("bottom",),
            "PolarGrid2D": ("top",), "Grid3D": ("front", "left"), "CylindricalGrid3D": ("bottom",),
            "SphericalGrid3D": ("back",)}


def explicit_flux(phi, u, D):
    """advective (upwind) minus diffusive flux of phi, as a FaceVariable"""
    up = pf.upwindMean(phi, u)
    g = pf.gradientTerm(phi)
    return face_like(phi.domain, lambda k, t: getattr(u, COMPS[k]) * getattr(up, COMPS[k])
                     - getattr(D, COMPS[k]) * getattr(g, COMPS[k]))


def build_terms(phi, src_flux, D, dt):
    """transient - diffusion = - div(src_flux)   (divergence used as a source vector)"""
    Mt, RHSt = pf.transientTerm(phi, dt, 1.0)
    return [(Mt, RHSt), -pf.diffusionTerm(D), -pf.divergenceTerm(src_flux)]


def test_solve(name, m, periodic=()):
    bc = rand_bcs(m, periodic)
    phi = rand_cell(m, bc)
    u = rand_face(m, "mixed")
    D = pf.FaceVariable(m, 0.3)
    S = rand_face(m, "mixed")
    dt = 0.05
    Md = pf.diffusionTerm(D)
    src = pf.divergenceTerm(S)                   # built once, reused in the time loop
    keep = snap([Md, src])
    for step in range(3):
        twin = pf.CellVariable(m, np.array(phi._value), copy.deepcopy(phi.BCs))
        Mt, RHSt = pf.transientTerm(phi, dt, 1.0)
        terms = [Mt, RHSt, -Md, -src] if step % 2 else [-src, (Mt, RHSt), -Md]
        checked_solve("%s step %d" % (name, step), phi, terms)
        checked_solve("%s step %d twin" % (name, step), twin, build_terms(twin, copy.deepcopy(S), copy.deepcopy(D), dt))
        close(phi._value, twin._value, "%s step %d: reused terms vs freshly built ones" % (name, step), 1e-11)
        ok(snap([Md, src]) == keep, name + ": reused term changed in the time loop")
    # explicit step with the divergence of the numerical flux, result fed to the implicit solver
    phi.apply_BCs()
    before = snap(phi)
    rhs = -pf.divergenceTerm(explicit_flux(phi, u, D))
    phi_e = pf.solveExplicitPDE(phi, 0.01, rhs)
    ok(snap(phi) == before, name + ": explicit step modified its input")
    ok(phi_e is not phi and not np.shares_memory(phi_e._value, phi._value), name + ": explicit result aliases input")
    close(phi_e.value, phi.value + 0.01 * rhs.reshape(tuple(m.dims + 2))[interior(m)], name + ": explicit update", 1e-12)
    checked_solve(name + " implicit after explicit", phi_e, build_terms(phi_e, explicit_flux(phi_e, u, D), D, dt))
    # integer (ghost-including) start variable and integer flux arrays
    phi_i = rand_cell(m, copy.deepcopy(bc), kind="int_ghost")
    checked_solve(name + " integer start", phi_i, build_terms(phi_i, rand_face(m, "int"), D, dt))


def test_shared_bcs(name, m):
    bc = rand_bcs(m)
    A = rand_cell(m, bc)
    B = rand_cell(m, bc)
    S = rand_face(m, "mixed")
    D = pf.FaceVariable(m, 0.3)

    def twin_of(v):
        return pf.CellVariable(m, np.array(v.value), copy.deepcopy(v.BCs))

    for step, (var, edit) in enumerate([(A, None), (B, "right"), (A, None), (B, None), (A, "left")]):
        if edit is not None:
            face = getattr(bc, edit)
            face.c[:] = face.c + 0.5
        tw = twin_of(var)
        t = build_terms(var, S, D, 0.1)
        checked_solve("%s shared BCs %d" % (name, step), var, t)
        checked_solve("%s shared BCs %d twin" % (name, step), tw, t)
        close(var._value, tw._value, "%s shared BCs %d: stale boundary data" % (name, step), 1e-11)


def test_linearity(name, m):
    bc = rand_bcs(m)
    M = [-pf.diffusionTerm(pf.FaceVariable(m, 0.4)), pf.linearSourceTerm(pf.CellVariable(m, 5.0))]
    src = [pf.divergenceTerm(rand_face(m, "mixed")) for _ in range(2)]

    def sol(r):
        v = rand_cell(m, copy.deepcopy(bc))
        return np.array(pf.solvePDE(v, M + r).value)

    x0, x1, x2, x12 = sol([]), sol([src[0]]), sol([src[1]]), sol([src[0], -2.0 * src[1]])
    close(x12 - x0, (x1 - x0) - 2.0 * (x2 - x0), name + ": solution not affine in the source vectors", 1e-9)


def main():
    for name, m in meshes():
        test_divergence(name, m)
        test_solve(name, m)
        per = PERIODIC.get(type(m).__name__)
        if per:
            test_solve(name + " periodic", m, per)
        test_shared_bcs(name, m)
        if name.endswith("/n"):
            test_linearity(name, m)
            retry_after_failure(name + " flaky solver", rand_cell(m, rand_bcs(m)),
                                build_terms(rand_cell(m, rand_bcs(m)), rand_face(m), pf.FaceVariable(m, 0.3), 0.1))
    print("check 2: %d assertions passed" % NCHECK[0])


if __name__ == "__main__":
    main()
    sys.exit(0)
