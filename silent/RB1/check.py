"""
check.py for refactoring 1 (pdesolver.solvePDE: pre-sum of the equation terms,
out-of-place combination with the cached boundary system).

Run as:  PYTHONPATH=<tree>/src /venv/bin/python check.py
Exits 0 on the clean tree and on the patched tree.
"""
import copy
import itertools
import sys

import numpy as np
from scipy.sparse import csr_array, issparse
from scipy.sparse.linalg import spsolve

import pyfvtool as pf

RTOL = 1e-10
NCHECK = [0]


def ok(cond, msg):
    NCHECK[0] += 1
    if not cond:
        print("FAIL:", msg)
        sys.exit(1)


def close(a, b, msg, rtol=RTOL):
    a = np.asarray(a, dtype=float)
    b = np.asarray(b, dtype=float)
    ok(a.shape == b.shape, msg + " (shape)")
    scale = max(1.0, float(np.max(np.abs(b))) if b.size else 1.0)
    err = float(np.max(np.abs(a - b))) if b.size else 0.0
    ok(np.isfinite(err) and err <= rtol*scale, f"{msg}: err={err:g} scale={scale:g}")


def snap(obj):
    """byte snapshot of a term / array / sparse matrix / tuple of those"""
    if isinstance(obj, tuple):
        return tuple(snap(o) for o in obj)
    if issparse(obj):
        return (obj.shape, obj.data.tobytes(), obj.indices.tobytes(),
                obj.indptr.tobytes(), str(obj.data.dtype))
    a = np.asarray(obj)
    return (a.shape, a.tobytes(), str(a.dtype))


def snap_bc(BC):
    out = []
    for name in ('left', 'right', 'bottom', 'top', 'back', 'front'):
        f = getattr(BC, name)
        out.append((snap(f.a), snap(f.b), snap(f.c), bool(f.periodic)))
    return tuple(out)


def grids():
    xf = np.array([0.0, 0.1, 0.25, 0.45, 0.7, 1.0])
    yf = np.array([0.0, 0.3, 0.5, 1.0])
    zf = np.array([0.0, 0.4, 1.0])
    rf = xf + 0.2
    return [
        pf.Grid1D(6, 1.0),
        pf.Grid1D(xf),
        pf.CylindricalGrid1D(5, 1.0),
        pf.CylindricalGrid1D(rf),
        pf.SphericalGrid1D(5, 1.0),
        pf.Grid2D(4, 3, 1.0, 2.0),
        pf.Grid2D(xf, yf),
        pf.CylindricalGrid2D(4, 3, 1.0, 2.0),
        pf.PolarGrid2D(4, 5, 1.0, 2*np.pi),
        pf.Grid3D(3, 4, 2, 1.0, 2.0, 3.0),
        pf.Grid3D(xf, yf, zf),
        pf.CylindricalGrid3D(3, 4, 2, 1.0, 2*np.pi, 1.0),
        pf.SphericalGrid3D(3, 4, 5, 1.0, np.pi, 2*np.pi),
    ]


def ndim_of(m):
    return len(m.dims)


def make_bc(m, variant=0):
    """non-trivial boundary conditions; variant selects the flavour"""
    BC = pf.BoundaryConditions(m)
    nd = ndim_of(m)
    # left: Dirichlet with b != 1 (scaled); right: Robin
    BC.left.a[:] = 0.0
    BC.left.b[:] = 2.0
    BC.left.c[:] = 2.0*1.5
    BC.right.a[:] = 1.0
    BC.right.b[:] = 0.5
    BC.right.c[:] = 0.25
    if nd >= 2:
        if variant == 0:
            BC.bottom.periodic = True       # one side only -> periodic pair
        else:
            BC.bottom.a[:] = 0.0
            BC.bottom.b[:] = 1.0
            BC.bottom.c[:] = np.linspace(0.0, 1.0, BC.bottom.c.size).reshape(BC.bottom.c.shape)
            BC.top.a[:] = -3.0              # Neumann with a != 1
            BC.top.b[:] = 0.0
            BC.top.c[:] = -0.3
    if nd == 3:
        if variant == 0:
            BC.back.a[:] = 0.0
            BC.back.b[:] = 1.0
            BC.back.c[:] = 0.7
        else:
            BC.front.periodic = True
    return BC


def fields(m, seed):
    rng = np.random.default_rng(seed)
    dims = tuple(int(d) for d in m.dims)
    phi0 = rng.uniform(0.5, 1.5, dims)
    alpha = pf.CellVariable(m, rng.uniform(0.8, 1.2, dims))
    beta = pf.CellVariable(m, rng.uniform(0.1, 0.9, dims))
    gamma = pf.CellVariable(m, rng.uniform(-1.0, 1.0, dims))
    Dc = pf.CellVariable(m, rng.uniform(0.5, 2.0, dims))
    D = pf.harmonicMean(Dc)
    u = pf.FaceVariable(m, 1.0)
    u._xvalue[:] = rng.uniform(-1.0, 1.0, u._xvalue.shape)
    if ndim_of(m) >= 2:
        u._yvalue[:] = rng.uniform(-1.0, 1.0, u._yvalue.shape)
    if ndim_of(m) == 3:
        u._zvalue[:] = rng.uniform(-1.0, 1.0, u._zvalue.shape)
    return phi0, alpha, beta, gamma, D, u


def build_terms(m, phi_old, dt, alpha, beta, gamma, D, u):
    Mt, RHSt = pf.transientTerm(phi_old, dt, alpha)
    Md = pf.diffusionTerm(D)
    Mc = pf.convectionUpwindTerm(u)
    Ml = pf.linearSourceTerm(beta)
    Rs = pf.constantSourceTerm(gamma)
    return (Mt, RHSt), Md, Mc, Ml, Rs


def hand_system(BC, termlist):
    """independent left-to-right assembly, boundary system first"""
    Mbc, RHSbc = pf.boundaryConditionsTerm(BC)
    M = csr_array(Mbc, copy=True)
    RHS = np.array(RHSbc, dtype=float, copy=True)
    for t in termlist:
        if isinstance(t, tuple):
            M = M + t[0]
            RHS = RHS + t[1]
        elif t.ndim == 1:
            RHS = RHS + t
        else:
            M = M + t
    return M, RHS


def interior_rows(m):
    G = m.cell_numbers()
    sl = tuple(slice(1, -1) for _ in range(G.ndim))
    return G[sl].ravel()


def check_solution(m, phi, BC, termlist, label):
    """
    hand-assembled system -> solveMatrixPDE; its full vector satisfies every
    row; the solution stored by solvePDE has the same inner values, and ghost
    cells equal to those of a freshly built variable with those inner values.
    """
    M, RHS = hand_system(BC, termlist)
    # sum of the terms only (the boundary system has no entry in these rows)
    Mt = csr_array(M.shape)
    Rt = np.zeros(RHS.shape)
    for t in termlist:
        if isinstance(t, tuple):
            Mt = Mt + t[0]
            Rt = Rt + t[1]
        elif t.ndim == 1:
            Rt = Rt + t
        else:
            Mt = Mt + t
    rows = interior_rows(m)
    # terms contribute to interior equations only
    mask = np.ones(M.shape[0], dtype=bool)
    mask[rows] = False
    ok(abs(Mt[mask, :]).sum() == 0.0 and np.all(Rt[mask] == 0.0),
       f"{label}: term touches boundary rows")
    # the expert-level solver on the hand-assembled system
    ref = pf.solveMatrixPDE(m, M, RHS)
    full = np.asarray(ref._value, dtype=float).ravel()
    scale = max(1.0, np.max(np.abs(M.data))) * max(1.0, np.max(np.abs(full)))
    res = (Mt @ full - Rt)[rows]
    ok(np.max(np.abs(res)) <= 1e-10*scale, f"{label}: interior residual {np.max(np.abs(res)):g}")
    Mbc, RHSbc = pf.boundaryConditionsTerm(BC)
    res = (Mbc @ full - RHSbc)[mask]
    ok(np.max(np.abs(res)) <= 1e-10*scale, f"{label}: boundary residual {np.max(np.abs(res)):g}")
    close(phi.value, ref.value, f"{label}: solvePDE vs solveMatrixPDE (inner)")
    # ghost cells stored by solvePDE are those the library derives from the
    # inner values and the BCs, exactly as for a freshly built variable
    fresh = pf.CellVariable(m, np.array(phi.value, dtype=float, copy=True), copy.deepcopy(BC))
    close(phi._value, fresh._value, f"{label}: ghost cells vs freshly built variable", rtol=1e-12)


class Recorder:
    def __init__(self, scribble=False, fail=False):
        self.calls = []
        self.scribble = scribble
        self.fail = fail

    def __call__(self, M, RHS):
        self.calls.append((csr_array(M, copy=True), np.array(RHS, copy=True)))
        if self.fail:
            raise MemoryError("simulated allocation failure in external solver")
        x = spsolve(csr_array(M, copy=True), np.array(RHS, copy=True))
        if self.scribble:
            # an impolite solver that destroys what it was given
            if issparse(M):
                M.data[:] = np.nan
            RHS[:] = np.nan
        return x


def run_grid(m, seed):
    name = type(m).__name__
    dt = 0.05
    for variant in (0, 1):
        phi0, alpha, beta, gamma, D, u = fields(m, seed + variant)
        BC = make_bc(m, variant)
        bc_snapshot = snap_bc(BC)
        phi_old = pf.CellVariable(m, phi0, BC)
        T, Md, Mc, Ml, Rs = build_terms(m, phi_old, dt, alpha, beta, gamma, D, u)
        base = [T, -Md, Mc, Ml, Rs]

        # --- reference solution from a fresh variable, plain ordering
        phi_ref = pf.CellVariable(m, phi0, copy.deepcopy(BC))
        out = pf.solvePDE(phi_ref, base)
        ok(out is phi_ref, f"{name}: solvePDE must return its argument")
        check_solution(m, phi_ref, BC, base, f"{name}/v{variant}/base")

        # --- orderings, sign and scaling: same equation, same solution
        variants = [
            list(reversed(base)),
            [Rs, Ml, T, Mc, -Md],
            [-Md, T[1], Mc, T[0], Ml, Rs],                  # pair split up
            [0.5*Ml, (T[0], 0.25*Rs), 0.5*Ml, -Md, (Mc, 0.75*Rs), T[1]],
            [(-2.0*T[0], -2.0*T[1]), 2.0*Md, -2.0*Mc, -2.0*Ml, -2.0*Rs],
            [T, -Md, Mc, Ml, Rs, Md, -Md, 3.0*Rs, -3.0*Rs],  # cancelling extras
            tuple(base),                                     # any sequence
        ]
        for k, tl in enumerate(variants):
            tsnap = [snap(t) for t in tl]
            phi = pf.CellVariable(m, phi0, copy.deepcopy(BC))
            phi.apply_BCs()
            cache = phi._BCsTerm if getattr(phi, '_BCsTerm', None) is not None else None
            cache_snap = snap(tuple(cache)) if cache is not None else None
            out = pf.solvePDE(phi, tl)
            ok(out is phi, f"{name}: identity (variant {k})")
            ok([snap(t) for t in tl] == tsnap, f"{name}: terms modified by solvePDE (variant {k})")
            if cache is not None:
                ok(snap(tuple(cache)) == cache_snap,
                   f"{name}: cached boundary system written to (variant {k})")
            close(phi._value, phi_ref._value, f"{name}/v{variant}: ordering variant {k}")
            check_solution(m, phi, BC, list(tl), f"{name}/v{variant}/variant{k}")
        ok(snap_bc(BC) == bc_snapshot, f"{name}: BC arrays modified")

        # --- integer-valued terms (dtype int) are accepted and equivalent
        rows = interior_rows(m)
        n = int(np.prod(np.asarray(m.dims) + 2))
        ivec = np.zeros(n, dtype=np.int64)
        ivec[rows] = np.arange(rows.size) % 5 - 2
        imat = csr_array((np.ones(rows.size, dtype=np.int64) * 3, (rows, rows)), shape=(n, n))
        pa = pf.CellVariable(m, phi0, copy.deepcopy(BC))
        pb = pf.CellVariable(m, phi0, copy.deepcopy(BC))
        pf.solvePDE(pa, [ivec] + base + [imat])
        pf.solvePDE(pb, [ivec.astype(float)] + base + [imat.astype(float)])
        close(pa._value, pb._value, f"{name}: integer terms")
        ok(ivec.dtype == np.int64 and imat.dtype == np.int64, f"{name}: integer term dtype changed")
        check_solution(m, pa, BC, [ivec] + base + [imat], f"{name}/v{variant}/int")

        # --- external solver sees the hand-assembled system
        rec = Recorder()
        phi = pf.CellVariable(m, phi0, copy.deepcopy(BC))
        pf.solvePDE(phi, base, externalsolver=rec)
        ok(len(rec.calls) == 1, f"{name}: external solver must be called exactly once")
        Mh, Rh = hand_system(BC, base)
        Mx, Rx = rec.calls[0]
        ok(Mx.shape == Mh.shape, f"{name}: external system shape")
        d = (Mx - Mh)
        ok((abs(d).max() if d.nnz else 0.0) <= 1e-12*max(1.0, abs(Mh).max()),
           f"{name}: external solver matrix differs")
        close(Rx, Rh, f"{name}: external solver rhs", rtol=1e-12)
        close(phi._value, phi_ref._value, f"{name}: external solver result")

        # --- a solver that scribbles over its arguments cannot corrupt state
        phi = pf.CellVariable(m, phi0, copy.deepcopy(BC))
        tsnap = [snap(t) for t in base]
        pf.solvePDE(phi, base, externalsolver=Recorder(scribble=True))
        ok([snap(t) for t in base] == tsnap, f"{name}: scribbling solver reached the terms")
        close(phi._value, phi_ref._value, f"{name}: scribbling solver, 1st solve")
        phi.value = phi0
        pf.solvePDE(phi, base)
        close(phi._value, phi_ref._value, f"{name}: solve after scribbling solver")

        # --- failing calls followed by retries
        phi = pf.CellVariable(m, phi0, copy.deepcopy(BC))
        before = np.array(phi.value, copy=True)
        raised = False
        try:
            pf.solvePDE(phi, base, externalsolver=Recorder(fail=True))
        except MemoryError:
            raised = True
        ok(raised, f"{name}: solver failure must propagate")
        ok(np.array_equal(np.asarray(phi.value), before), f"{name}: values changed by failed solve")
        for bad in ([T, np.zeros((2, 2, 2)), -Md],
                    [T, -Md, (Rs, Ml)],                # tuple in the wrong order
                    [(Ml, np.zeros((2, 2)))]):
            raised = False
            try:
                pf.solvePDE(phi, bad)
            except TypeError:
                raised = True
            ok(raised, f"{name}: TypeError expected for malformed term")
            ok(np.array_equal(np.asarray(phi.value), before), f"{name}: values changed by rejected call")
        ok([snap(t) for t in base] == tsnap, f"{name}: terms modified by failed calls")
        pf.solvePDE(phi, base)
        close(phi._value, phi_ref._value, f"{name}: retry after failures")

        # --- shared BC object, edited between solves
        BCs = make_bc(m, variant)
        p1 = pf.CellVariable(m, phi0, BCs)
        p2 = pf.CellVariable(m, 2.0*phi0, BCs)
        pf.solvePDE(p1, base)
        BCs.right.c[:] = 1.25
        BCs.left.c[:] = -0.5
        pf.solvePDE(p2, base)
        p1.value = phi0
        pf.solvePDE(p1, base)
        fresh = pf.CellVariable(m, phi0, copy.deepcopy(BCs))
        pf.solvePDE(fresh, base)
        close(p1._value, fresh._value, f"{name}: shared BCs (p1)")
        close(p2._value, fresh._value, f"{name}: shared BCs (p2)")  # initial value is irrelevant
        check_solution(m, p1, BCs, base, f"{name}/v{variant}/sharedBC")

        # --- time loop reusing matrix terms == everything rebuilt every step
        pa = pf.CellVariable(m, phi0, copy.deepcopy(BC))
        pb = pf.CellVariable(m, phi0, copy.deepcopy(BC))
        msnap = [snap(t) for t in (Md, Mc, Ml, Rs)]
        for step in range(3):
            Ta = pf.transientTerm(pa, dt, alpha)
            pf.solvePDE(pa, [Ta, -Md, Mc, Ml, Rs])
            pb2 = pf.CellVariable(m, np.array(pb.value, copy=True), copy.deepcopy(BC))
            allnew = build_terms(m, pb2, dt, alpha, beta, gamma, D, u)
            pf.solvePDE(pb2, [allnew[0], -allnew[1], allnew[2], allnew[3], allnew[4]])
            pb = pb2
            close(pa._value, pb._value, f"{name}: time loop step {step}", rtol=1e-11)
        ok([snap(t) for t in (Md, Mc, Ml, Rs)] == msnap, f"{name}: reused terms modified in time loop")

        # --- explicit step fed to the implicit solver
        pe0 = pf.CellVariable(m, phi0, copy.deepcopy(BC))
        n = pe0._value.size
        rhs_e = np.zeros(n)
        rhs_e[rows] = 0.1
        rhs_snap = snap(rhs_e)
        v0 = snap(pe0._value)
        pe1 = pf.solveExplicitPDE(pe0, 0.01, rhs_e)
        ok(snap(rhs_e) == rhs_snap and snap(pe0._value) == v0, f"{name}: solveExplicitPDE modified its input")
        Te = pf.transientTerm(pe1, dt, alpha)
        pf.solvePDE(pe1, [Te, -Md, Mc, Ml, Rs])
        pfresh = pf.CellVariable(m, phi0 + 0.001, copy.deepcopy(BC))
        Tf = pf.transientTerm(pfresh, dt, alpha)
        pf.solvePDE(pfresh, [Tf, -Md, Mc, Ml, Rs])
        close(pe1._value, pfresh._value, f"{name}: explicit result fed to solvePDE")

        # --- linearity in sources, boundary data and previous-step values
        def solve_with(src_scale, c_scale, old_scale):
            B = copy.deepcopy(BC)
            for fname in ('left', 'right', 'bottom', 'top', 'back', 'front'):
                f = getattr(B, fname)
                if f.c.size:
                    f.c[:] = c_scale*np.asarray(f.c)
            p = pf.CellVariable(m, old_scale*phi0, B)
            Tl = pf.transientTerm(p, dt, alpha)
            pf.solvePDE(p, [Tl, -Md, Mc, Ml, src_scale*Rs])
            return np.array(p._value, dtype=float)
        s_a = solve_with(1.0, 1.0, 1.0)
        s_b = solve_with(-2.0, 0.5, 3.0)
        s_c = solve_with(1.0 + 2.0*(-2.0), 1.0 + 2.0*0.5, 1.0 + 2.0*3.0)
        close(s_c, s_a + 2.0*s_b, f"{name}: linearity", rtol=1e-9)


def main():
    for k, m in enumerate(grids()):
        run_grid(m, 1000 + 17*k)
    print(f"check 1: all {NCHECK[0]} assertions passed")


if __name__ == "__main__":
    main()
