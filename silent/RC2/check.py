"""
check.py for refactoring 2 (face.py: FaceVariable unary operators and faceeval)

Standalone:   PYTHONPATH=<tree>/src /venv/bin/python check.py
Exits 0 when every assertion holds (clean tree and patched tree).

On all 9 grid classes (uniform / non-uniform):
  * every FaceVariable operator and reflected operator versus numpy, per
    component, with FaceVariable / python scalar / numpy scalar / broadcastable
    ndarray operands, float, integer and boolean components
  * faceeval with 1 ... 8 arguments (order of the arguments, order and number
    of the calls of f: x, then y, then z faces), 0 and 9 arguments, and
    arguments that are no FaceVariables (AttributeError), exceptions raised by
    f are passed on
  * operands untouched, results are new objects with new arrays, cross
    modification probes in both directions
  * FaceVariables produced that way are usable as coefficients (diffusionTerm,
    convectionTerm) and give the same matrices as directly built ones
  * expression trees, copy.deepcopy of results
"""
import sys
import copy
import operator
import warnings
import numpy as np
import pyfvtool as pf

warnings.simplefilter("ignore")
rng = np.random.default_rng(424242)
NCHECK = [0]


def ok(cond, msg):
    NCHECK[0] += 1
    if not cond:
        print("FAILED:", msg)
        sys.exit(1)


def faces(n, lo, hi):
    w = 0.5 + rng.random(n)
    x = np.concatenate([[0.0], np.cumsum(w)])
    return lo + (hi - lo) * x / x[-1]


def meshes():
    out = []
    out.append(("Grid1D-u", pf.Grid1D(5, 1.5)))
    out.append(("Grid1D-n", pf.Grid1D(faces(4, 0.0, 2.0))))
    out.append(("CylindricalGrid1D-n", pf.CylindricalGrid1D(faces(5, 0.3, 2.0))))
    out.append(("SphericalGrid1D-u", pf.SphericalGrid1D(4, 1.2)))
    out.append(("Grid2D-n", pf.Grid2D(faces(3, 0, 1), faces(4, 0, 2))))
    out.append(("CylindricalGrid2D-u", pf.CylindricalGrid2D(3, 4, 1.0, 2.0)))
    out.append(("PolarGrid2D-n", pf.PolarGrid2D(faces(3, 0.2, 1), faces(4, 0, 1.5))))
    out.append(("Grid3D-n", pf.Grid3D(faces(2, 0, 1), faces(3, 0, 1), faces(3, 0, 2))))
    out.append(("CylindricalGrid3D-u", pf.CylindricalGrid3D(2, 4, 3, 1.0, 2 * np.pi, 1.0)))
    out.append(("SphericalGrid3D-n", pf.SphericalGrid3D(faces(3, 0.3, 1), faces(2, 0.4, 2.0), faces(3, 0, 3.0))))
    return out


def comps(v):
    return (v._xvalue, v._yvalue, v._zvalue)


def shapes(m):
    return tuple(c.shape for c in comps(pf.FaceVariable(m, 1.0)))


def random_fv(m, kind="float", lo=0.25):
    """FaceVariable with random components (3-argument constructor)"""
    arrs = []
    for shp in shapes(m):
        if kind == "float":
            arrs.append(rng.random(shp) + lo)
        elif kind == "int":
            arrs.append(rng.integers(1, 5, size=shp))
        elif kind == "bool":
            arrs.append(rng.random(shp) > 0.5)
        elif kind == "signed":
            arrs.append(rng.random(shp) - 0.5)
    return pf.FaceVariable(m, *arrs)


def state(v):
    return tuple(np.array(c) for c in comps(v)) + (tuple(id(c) for c in comps(v)),)


def same(s1, s2):
    return all(x.dtype == y.dtype and x.shape == y.shape and np.array_equal(x, y, equal_nan=True)
               for x, y in zip(s1[:3], s2[:3])) and s1[3] == s2[3]


def check_result(res, expect, lead, operands, tag):
    ok(type(res) is pf.FaceVariable, tag + " result type")
    ok(res.domain is lead.domain, tag + " mesh")
    for k, (r, e) in enumerate(zip(comps(res), expect)):
        e = np.asarray(e)
        ok(isinstance(r, np.ndarray), tag + " component %d is no array" % k)
        ok(r.shape == e.shape, tag + " component %d shape %s vs %s" % (k, r.shape, e.shape))
        ok(r.dtype == e.dtype, tag + " component %d dtype %s vs %s" % (k, r.dtype, e.dtype))
        ok(np.array_equal(r, e, equal_nan=True), tag + " component %d values" % k)
    for o in operands:
        if isinstance(o, pf.FaceVariable):
            ok(res is not o, tag + " result is an operand")
            for r in comps(res):
                for c in comps(o):
                    ok(not np.shares_memory(r, c), tag + " result aliases an operand")
        elif isinstance(o, np.ndarray):
            for r in comps(res):
                ok(not np.shares_memory(r, o), tag + " result aliases an ndarray operand")
    rc = comps(res)
    ok(not np.shares_memory(rc[0], rc[1]) and not np.shares_memory(rc[0], rc[2])
       and not np.shares_memory(rc[1], rc[2]), tag + " components alias each other")


BINOPS = [
    ("add", operator.add), ("sub", operator.sub), ("mul", operator.mul),
    ("truediv", operator.truediv), ("pow", operator.pow),
    ("gt", operator.gt), ("ge", operator.ge), ("lt", operator.lt), ("le", operator.le),
    ("and", operator.and_), ("or", operator.or_),
]
NP_EQUIV = {"and": np.logical_and, "or": np.logical_or}
REFLECTABLE = ("add", "sub", "mul", "truediv", "pow")


def np_eval(name, fn, x, y):
    return NP_EQUIV[name](x, y) if name in NP_EQUIV else fn(x, y)


def attempt(thunk):
    """value of thunk(), or the type of the exception it raises"""
    try:
        return thunk()
    except Exception as e:
        return type(e)


def three(o):
    return comps(o) if isinstance(o, pf.FaceVariable) else (o, o, o)


def check_operators(name, m):
    nd = len(m.dims)
    for kind in ("float", "int", "bool", "signed"):
        a = random_fv(m, kind)
        b = random_fv(m, "float")
        b._xvalue.flat[0] = a._xvalue.flat[0]
        arr0 = np.array(1.5)
        arr1 = np.array(2.0).reshape((1,) * nd)
        others = [("var", b), ("float", 2.5), ("int", 3), ("npfloat", np.float64(0.75)),
                  ("zero-d array", arr0), ("ones-shaped array", arr1), ("self", a),
                  ("intvar", random_fv(m, "int")), ("boolvar", random_fv(m, "bool"))]
        sa, sb = state(a), state(b)
        for opname, fn in BINOPS:
            for oname, other in others:
                tag = "%s %s: a %s %s" % (name, kind, opname, oname)
                keep = np.array(other) if isinstance(other, np.ndarray) else None
                so = state(other) if isinstance(other, pf.FaceVariable) else None
                expect = attempt(lambda: [np_eval(opname, fn, x, y)
                                          for x, y in zip(comps(a), three(other))])
                got = attempt(lambda: fn(a, other))
                if isinstance(expect, type):       # numpy refuses: same exception type
                    ok(got is expect, tag + " exception %r vs %r" % (got, expect))
                else:
                    check_result(got, expect, a, [a, other], tag)
                if opname in REFLECTABLE and not isinstance(other, (np.ndarray, np.generic)):
                    expect = attempt(lambda: [np_eval(opname, fn, y, x)
                                              for x, y in zip(comps(a), three(other))])
                    got = attempt(lambda: fn(other, a))
                    lead = other if isinstance(other, pf.FaceVariable) else a
                    if isinstance(expect, type):
                        ok(got is expect, tag + " (reflected) exception %r vs %r" % (got, expect))
                    else:
                        check_result(got, expect, lead, [a, other], tag + " (reflected)")
                if keep is not None:
                    ok(np.array_equal(keep, other), tag + " ndarray operand changed")
                if so is not None:
                    ok(same(so, state(other)), tag + " right operand changed")
                ok(same(sa, state(a)), tag + " left operand changed")
        for rname, f in (("__radd__", lambda x, y: y + x), ("__rsub__", lambda x, y: y - x),
                         ("__rmul__", lambda x, y: y * x), ("__rtruediv__", lambda x, y: y / x),
                         ("__rpow__", lambda x, y: y ** x)):
            for oname, other in others[:3]:
                expect = attempt(lambda: [f(x, y) for x, y in zip(comps(a), three(other))])
                got = attempt(lambda: getattr(a, rname)(other))
                if isinstance(expect, type):
                    ok(got is expect, "%s %s: a.%s(%s) exception" % (name, kind, rname, oname))
                else:
                    check_result(got, expect, a, [a, other],
                                 "%s %s: a.%s(%s)" % (name, kind, rname, oname))
        # unary operators
        tag = "%s %s: " % (name, kind)
        check_result(abs(a), [np.abs(c) for c in comps(a)], a, [a], tag + "abs")
        check_result(a.__abs__(), [np.abs(c) for c in comps(a)], a, [a], tag + "__abs__")
        if kind == "bool":
            try:                       # numpy refuses '-' on boolean arrays
                -a
                ok(False, tag + "neg of boolean faces accepted")
            except TypeError:
                ok(True, "")
        else:
            check_result(-a, [-c for c in comps(a)], a, [a], tag + "neg")
            check_result(-(-a), [c for c in comps(a)], a, [a], tag + "neg neg")
            check_result(a.__neg__(), [-c for c in comps(a)], a, [a], tag + "__neg__")
        ok(same(sa, state(a)) and same(sb, state(b)), tag + "operands changed")


def check_faceeval(name, m):
    vs = [random_fv(m, "float") for _ in range(8)]
    vs[3] = random_fv(m, "int")
    st = [state(v) for v in vs]
    weights = [1.0, -2.0, 3.5, 0.25, 7.0, -1.5, 0.125, 11.0]
    for n in range(1, 9):
        calls = []

        def f(*xs):
            calls.append(tuple(x.shape for x in xs))
            ok(len(xs) == n, name + " faceeval: number of arguments of f")
            return sum(w * (x ** (k + 1)) for k, (w, x) in enumerate(zip(weights, xs)))
        res = pf.faceeval(f, *vs[:n])
        expect = [sum(w * (c ** (k + 1)) for k, (w, c) in enumerate(zip(weights, cs)))
                  for cs in zip(*[comps(v) for v in vs[:n]])]
        check_result(res, expect, vs[0], vs[:n], name + " faceeval %d" % n)
        shp = shapes(m)
        ok(calls == [tuple([s] * n) for s in shp], name + " faceeval %d: calls of f %r" % (n, calls))
    # non-commutative function: order of the arguments
    res = pf.faceeval(lambda x, y, z: (x - y) / z, vs[0], vs[1], vs[2])
    expect = [(x - y) / z for x, y, z in zip(comps(vs[0]), comps(vs[1]), comps(vs[2]))]
    check_result(res, expect, vs[0], vs[:3], name + " faceeval order")
    res = pf.faceeval(np.sqrt, vs[1])
    check_result(res, [np.sqrt(c) for c in comps(vs[1])], vs[1], [vs[1]], name + " faceeval ufunc")
    res = pf.faceeval(lambda x: x > 0.6, vs[1])
    check_result(res, [c > 0.6 for c in comps(vs[1])], vs[1], [vs[1]], name + " faceeval bool")
    # mesh of the result: first argument
    other_mesh = copy.deepcopy(m)
    w = random_fv(other_mesh, "float")
    ok(pf.faceeval(np.add, w, vs[0]).domain is other_mesh, name + " faceeval mesh of first argument")
    ok(pf.faceeval(np.add, vs[0], w).domain is m, name + " faceeval mesh of first argument (2)")
    # number of arguments outside 1..8: nothing is evaluated
    calls = []
    r0 = pf.faceeval(lambda *xs: calls.append(1))
    r9 = pf.faceeval(lambda *xs: calls.append(1), *(vs + [vs[0]]))
    ok(r0 is None and r9 is None and calls == [], name + " faceeval with 0 / 9 arguments")
    # arguments that are no FaceVariables
    for bad in ((2.0,), (vs[0], 2.0), (vs[0], np.ones(3)), (vs[0], vs[1], None)):
        calls = []
        try:
            pf.faceeval(lambda *xs: calls.append(1) or xs[0], *bad)
            ok(False, name + " faceeval accepted a non-FaceVariable")
        except AttributeError:
            ok(calls == [], name + " faceeval called f before failing")
    # exceptions of f are passed on, after the x faces were evaluated

    class Boom(Exception):
        pass
    calls = []

    def g(x):
        calls.append(x.shape)
        if len(calls) == 2:
            raise Boom()
        return x + 1
    try:
        pf.faceeval(g, vs[0])
        ok(False, name + " exception of f swallowed")
    except Boom:
        ok(calls == list(shapes(m)[:2]), name + " faceeval evaluation order on failure")
    ok(all(same(s, state(v)) for s, v in zip(st, vs)), name + " faceeval changed its arguments")


def check_cross_modification(name, m):
    a = random_fv(m, "signed")
    b = random_fv(m, "float")
    makers = [("-a", lambda: -a), ("abs", lambda: abs(a)), ("a+b", lambda: a + b), ("2*a", lambda: 2 * a),
              ("a/b", lambda: a / b), ("1-a", lambda: 1 - a), ("b**a", lambda: b ** a), ("a>b", lambda: a > b),
              ("faceeval1", lambda: pf.faceeval(np.exp, a)),
              ("faceeval2", lambda: pf.faceeval(np.maximum, a, b)),
              ("tree", lambda: -(abs(a) + b) * pf.faceeval(np.cos, -a) / (1 + b ** 2))]
    for mname, make in makers:
        tag = "%s cross %s" % (name, mname)
        sa, sb = state(a), state(b)
        res = make()
        ref = state(make())
        for c in comps(res):
            if c.size:
                c[...] = 99
        res._xvalue = np.zeros(3)
        ok(same(sa, state(a)) and same(sb, state(b)), tag + ": editing the result changed an operand")
        res = make()
        a2 = copy.deepcopy(a)
        for c in comps(a):
            if c.size:
                c[...] = c * 0 - 3
        ok(same(ref[:3] + (state(res)[3],), state(res)), tag + ": editing an operand changed the result")
        d = copy.deepcopy(res)
        ok(same(ref[:3] + (state(d)[3],), state(d)) and not np.shares_memory(d._xvalue, res._xvalue),
           tag + ": deepcopy of the result")
        for c, c2 in zip(comps(a), comps(a2)):        # restore
            if c.size:
                c[...] = c2
        ok(same(sa, state(a)), tag + ": restore")


def check_as_coefficient(name, m):
    """derived FaceVariables work as coefficients, same matrices as directly built ones"""
    a = random_fv(m, "float")
    direct = pf.FaceVariable(m, *[np.abs(-c) * 2 for c in comps(a)])
    derived = pf.faceeval(lambda x: 2 * x, abs(-a))
    M1 = pf.diffusionTerm(direct)
    M2 = pf.diffusionTerm(derived)
    ok((M1 != M2).nnz == 0, name + " diffusionTerm with a derived coefficient")
    u1 = pf.FaceVariable(m, *[-(c - 0.7) for c in comps(a)])
    u2 = -(a - 0.7)
    ok((pf.convectionTerm(u1) != pf.convectionTerm(u2)).nnz == 0, name + " convectionTerm with a derived velocity")
    ok((pf.convectionUpwindTerm(u1) != pf.convectionUpwindTerm(u2)).nnz == 0,
       name + " convectionUpwindTerm with a derived velocity")
    phi = pf.CellVariable(m, rng.random(tuple(m.dims)), pf.BoundaryConditions(m))
    g = pf.gradientTerm(phi)
    s = state(g)
    h = abs(-g)
    ok(same(s, state(g)), name + " gradient changed by unary operators")
    check_result(h, [np.abs(c) for c in comps(g)], g, [g], name + " abs(-gradient)")
    # labelled accessors of the result still resolve to the three components
    if type(m) in (pf.Grid1D, pf.Grid2D, pf.Grid3D):
        ok(h.xvalue is h._xvalue, name + " xvalue")
    else:
        ok(h.rvalue is h._xvalue, name + " rvalue")


def main():
    for name, m in meshes():
        check_operators(name, m)
        check_faceeval(name, m)
        check_cross_modification(name, m)
        check_as_coefficient(name, m)
    print("check 2 OK (%d assertions)" % NCHECK[0])


if __name__ == "__main__":
    main()
