import copy
import operator
import sys

import numpy as np
import pyfvtool as pf

# --------------------------------------------------------------------------
# shared scaffolding (meshes, boundary conditions, snapshots)
# --------------------------------------------------------------------------

FACES = ('left', 'right', 'bottom', 'top', 'back', 'front')
NCHECK = [0]


def ok(cond, msg):
    NCHECK[0] += 1
    if not cond:
        raise AssertionError(msg)


def same(a, b):
    a = np.asarray(a)
    b = np.asarray(b)
    return a.shape == b.shape and np.array_equal(a, b, equal_nan=True)


def close(a, b, rtol=1e-9, atol=1e-11):
    a = np.asarray(a, dtype=float)
    b = np.asarray(b, dtype=float)
    return a.shape == b.shape and np.allclose(a, b, rtol=rtol, atol=atol)


def all_meshes():
    xf = np.array([0.0, 0.1, 0.25, 0.5, 0.7, 1.0])
    rf = np.array([0.2, 0.3, 0.55, 0.8, 1.3])
    yf = np.array([0.0, 0.3, 0.5, 1.2])
    zf = np.array([0.0, 0.4, 1.0])
    tf = np.linspace(0.0, 2*np.pi, 5)
    return [
        ('Grid1D', pf.Grid1D(6, 1.5)),
        ('Grid1D-nonuniform', pf.Grid1D(xf)),
        ('CylindricalGrid1D', pf.CylindricalGrid1D(rf)),
        ('SphericalGrid1D', pf.SphericalGrid1D(5, 2.0)),
        ('Grid2D', pf.Grid2D(xf, yf)),
        ('CylindricalGrid2D', pf.CylindricalGrid2D(rf, yf)),
        ('PolarGrid2D', pf.PolarGrid2D(rf, tf)),
        ('Grid3D', pf.Grid3D(xf[:4], yf, zf)),
        ('CylindricalGrid3D', pf.CylindricalGrid3D(3, 4, 2, 1.0, 2*np.pi, 1.0)),
        ('SphericalGrid3D', pf.SphericalGrid3D(3, 4, 3, 1.0, np.pi, 2*np.pi)),
    ]


def used_faces(mesh):
    return FACES[:2*len(mesh.dims)]


def random_BCs(mesh, rng, kind='robin'):
    """kind: 'robin' (all faces a,b,c random), 'dirichlet', 'default',
    'periodic-one-side' (periodic flag on the left face only; other
    directions Robin)."""
    bc = pf.BoundaryConditions(mesh)
    if kind == 'default':
        return bc
    for i, name in enumerate(used_faces(mesh)):
        face = getattr(bc, name)
        shp = face.a.shape
        if kind == 'dirichlet':
            face.a[:] = 0.0
            face.b[:] = 1.0
            face.c[:] = rng.uniform(0.5, 2.0, size=face.c.shape)
        else:
            # keep a/dx and b/2 well separated: a small, b large, one sign
            face.a[:] = rng.uniform(0.01, 0.03, size=shp)
            face.b[:] = rng.uniform(1.0, 2.0, size=face.b.shape)
            face.c[:] = rng.uniform(-1.0, 1.0, size=face.c.shape)
    if kind == 'periodic-one-side':
        # radial directions cannot be periodic
        if type(mesh) in (pf.Grid1D, pf.Grid2D, pf.Grid3D):
            bc.left.periodic = True
        elif len(mesh.dims) > 1:
            bc.bottom.periodic = True
    return bc


def snap_bc(bc):
    out = {}
    for name in FACES:
        f = getattr(bc, name)
        out[name] = (np.array(f.a), np.array(f.b), np.array(f.c),
                     bool(f.periodic))
    return out


def bc_equal(s1, s2):
    for name in FACES:
        a1, b1, c1, p1 = s1[name]
        a2, b2, c2, p2 = s2[name]
        if not (same(a1, a2) and same(b1, b2) and same(c1, c2) and p1 == p2):
            return False
    return True


def snap_cell(v):
    return (np.array(v._value), snap_bc(v.BCs))


def cell_equal(s1, s2):
    return same(s1[0], s2[0]) and bc_equal(s1[1], s2[1])


def snap_face(f):
    return tuple(np.array(c) for c in (f._xvalue, f._yvalue, f._zvalue))


def face_equal(s1, s2):
    return all(same(a, b) for a, b in zip(s1, s2))


def rand_cell(mesh, rng, kind='robin', lo=0.5, hi=2.0, integer=False):
    vals = rng.uniform(lo, hi, size=tuple(mesh.dims))
    if integer:
        vals = rng.integers(1, 5, size=tuple(mesh.dims))
    return pf.CellVariable(mesh, vals, random_BCs(mesh, rng, kind))


def fresh_like(v):
    """A variable rebuilt from scratch with the public constructor from the
    interior values and a deep copy of the boundary conditions of v."""
    return pf.CellVariable(v.domain, np.array(v.value),
                           copy.deepcopy(v.BCs))


def no_shared_memory_cells(u, v):
    if np.shares_memory(u._value, v._value):
        return False
    if u.BCs is v.BCs:
        return False
    for name in FACES:
        fu, fv = getattr(u.BCs, name), getattr(v.BCs, name)
        if fu is fv:
            return False
        for k in 'abc':
            if np.shares_memory(getattr(fu, k), getattr(fv, k)):
                return False
    return True


def independent_cells(res, operands, rng):
    """Cross-modification probes: changing res (values and BCs) leaves the
    operands alone and the other way round."""
    before_ops = [snap_cell(o) for o in operands]
    res.value[...] = res.value + 1.25
    res.BCs.left.a[:] = res.BCs.left.a + 0.5
    res.BCs.right.c[:] = 7.0
    res.BCs.left.periodic = not res.BCs.left.periodic
    res.BCs.left.periodic = not res.BCs.left.periodic
    for o, b in zip(operands, before_ops):
        if not cell_equal(snap_cell(o), b):
            return False
    before_res = snap_cell(res)
    for o in operands:
        o.value[...] = o.value * 0.5 + 3.0
        o.BCs.left.b[:] = o.BCs.left.b + 0.25
        o.BCs.right.a[:] = 0.125
    return cell_equal(snap_cell(res), before_res)


def ghosts_consistent(v):
    """Ghost cells of v agree with its interior values and its BCs."""
    ref = fresh_like(v)
    return same(ref._value, v._value)


def steady_terms(mesh, D, beta, src):
    """-div(D grad phi) + beta phi = src ; returns term list for solvePDE"""
    return [-pf.diffusionTerm(D), pf.linearSourceTerm(beta),
            pf.constantSourceTerm(src)]


class FailingSolver:
    """external solver that fails the first n calls"""
    def __init__(self, nfail=1):
        self.nfail = nfail
        self.calls = 0

    def __call__(self, M, RHS):
        from scipy.sparse.linalg import spsolve
        self.calls += 1
        if self.calls <= self.nfail:
            raise RuntimeError('external solver failed')
        return spsolve(M, RHS)

# --------------------------------------------------------------------------
# refactoring 3: derived CellVariables copy the boundary conditions but share
# the mesh the boundary conditions refer to
# --------------------------------------------------------------------------

BINARY = [
    ('add', operator.add), ('sub', operator.sub), ('mul', operator.mul),
    ('truediv', operator.truediv), ('pow', operator.pow),
    ('gt', operator.gt), ('ge', operator.ge), ('lt', operator.lt),
    ('le', operator.le),
    ('and', operator.and_), ('or', operator.or_),
]
NUMPY_OF = {'and': np.logical_and, 'or': np.logical_or}
REFLECTABLE = ('add', 'sub', 'mul', 'truediv', 'pow', 'gt', 'ge', 'lt', 'le')


def interior(mesh, full):
    sl = tuple(slice(1, -1) for _ in mesh.dims)
    return np.asarray(full)[sl]


def mesh_equivalent(m1, m2):
    if type(m1) is not type(m2) or not same(m1.dims, m2.dims):
        return False
    for group in ('cellsize', 'cellcenters', 'facecenters'):
        for k in ('_x', '_y', '_z'):
            if not same(getattr(getattr(m1, group), k),
                        getattr(getattr(m2, group), k)):
                return False
    return True


def snap_mesh(m):
    return [np.array(getattr(getattr(m, g), k))
            for g in ('cellsize', 'cellcenters', 'facecenters')
            for k in ('_x', '_y', '_z')] + [np.array(m.dims)]


def check_result(res, expect, left_var, operands, before, tag):
    ok(type(res) is pf.CellVariable, tag + ' type')
    ok(res.domain is left_var.domain, tag + ' domain')
    ok(same(res.value, np.asarray(expect) * 1.0), tag + ' values')
    ok(res._value.dtype in (np.dtype(float), np.dtype(bool)), tag + ' dtype')
    for o, b in zip(operands, before):
        ok(cell_equal(snap_cell(o), b), tag + ' operand changed')
        ok(no_shared_memory_cells(res, o), tag + ' memory shared with operand')
    ok(bc_equal(snap_bc(res.BCs), before[0][1]), tag + ' BCs of left-most operand')
    ok(type(res.BCs) is type(left_var.BCs), tag + ' BCs class')
    ok(mesh_equivalent(res.BCs.domain, left_var.BCs.domain), tag + ' BCs mesh')
    ok(res.BCs._epoch == left_var.BCs._epoch if hasattr(left_var.BCs, '_epoch')
       else True, tag + ' bookkeeping')
    ok(res.BCs.modified == left_var.BCs.modified, tag + ' modified flag carried')
    ok(ghosts_consistent(res), tag + ' ghost cells')


def check_operators(name, mesh, rng):
    mesh_before = snap_mesh(mesh)
    for kind in ('default', 'robin', 'dirichlet', 'periodic-one-side'):
        for lbl, op in BINARY:
            npop = NUMPY_OF.get(lbl, op)
            # variable (op) variable / scalar / ndarray
            u = rand_cell(mesh, rng, kind)
            v = rand_cell(mesh, rng, 'robin', integer=(lbl == 'pow'))
            ub, vb = snap_cell(u), snap_cell(v)
            uv, vv = interior(mesh, ub[0]), interior(mesh, vb[0])
            arr = rng.uniform(0.5, 2.0, size=tuple(mesh.dims))
            iarr = rng.integers(1, 4, size=tuple(mesh.dims))
            tag = f'{name}/{kind}/{lbl}'
            check_result(op(u, v), npop(uv, vv), u, [u, v], [ub, vb], tag + '/var')
            for s in (2, 1.5, np.float64(0.75), True):
                check_result(op(u, s), npop(uv, s), u, [u], [ub], tag + '/scalar')
            for a in (arr, iarr):
                ab = np.array(a)
                res = op(u, a)
                check_result(res, npop(uv, ab), u, [u], [ub], tag + '/ndarray')
                ok(same(a, ab) and not np.shares_memory(res._value, a),
                   tag + ' ndarray operand')
            if lbl in REFLECTABLE:
                for s in (2, 1.5):
                    check_result(op(s, u), op(s, uv), u, [u], [ub], tag + '/reflected')
            ok(independent_cells(op(u, v), [u, v], rng), tag + ' independence')
        # unary, copy, funceval, pending (unconsumed) BC edits
        u = rand_cell(mesh, rng, kind, lo=-2, hi=2)
        u.BCs.right.c[:] = 0.375          # edit not yet consumed by apply_BCs
        ok(u.BCs.modified, name + ' modified flag')
        ub = snap_cell(u)
        uv = interior(mesh, ub[0])
        # ghost cells of u itself are stale now, those of results are not
        for lbl, res, exp in (('neg', -u, -uv), ('abs', abs(u), np.abs(uv)),
                              ('funceval', pf.funceval(np.square, u), uv * uv),
                              ('celleval', pf.celleval(np.exp, u), np.exp(uv)),
                              ('rsub', 1 - u, 1 - uv)):
            check_result(res, exp, u, [u], [ub], f'{name}/{kind}/{lbl}')
        c = u.copy()
        ok(same(c._value, ub[0]) and bc_equal(snap_bc(c.BCs), ub[1])
           and no_shared_memory_cells(c, u), name + ' copy()')
        ok(mesh_equivalent(c.BCs.domain, u.BCs.domain), name + ' copy() mesh')
        ok(independent_cells(c, [u], rng), name + ' copy() independence')
        d = copy.deepcopy(-u)
        ok(ghosts_consistent(d) and mesh_equivalent(d.domain, mesh)
           and mesh_equivalent(d.BCs.domain, mesh), name + ' deepcopy of result')
        ok(d.domain is not mesh, name + ' deepcopy must not share the mesh')
    # expression trees
    for _ in range(10):
        u = rand_cell(mesh, rng, 'robin')
        v = rand_cell(mesh, rng, 'dirichlet')
        w = rand_cell(mesh, rng, 'default')
        b = [snap_cell(x) for x in (u, v, w)]
        a, bb, c = (interior(mesh, s[0]) for s in b)
        res = 2.0 ** (1 - u / (3 + v)) - abs(0.5 * w - v) / (4 - u * v) \
            + ((u > v) | (w <= 1.0)) * w
        exp = 2.0 ** (1 - a / (3 + bb)) - np.abs(0.5 * c - bb) / (4 - a * bb) \
            + np.logical_or(a > bb, c <= 1.0) * c
        ok(close(res.value, exp, rtol=1e-14, atol=0), name + ' tree values')
        ok(bc_equal(snap_bc(res.BCs), b[0][1]), name + ' tree BCs (2.0**... has '
           'u as left-most variable)')
        ok(ghosts_consistent(res), name + ' tree ghosts')
        ok(all(cell_equal(snap_cell(x), s) for x, s in zip((u, v, w), b)),
           name + ' tree operands changed')
        ok(all(no_shared_memory_cells(res, x) for x in (u, v, w)), name + ' tree memory')
    ok(all(same(x, y) for x, y in zip(snap_mesh(mesh), mesh_before)),
       name + ' mesh arrays changed')


def check_histories(name, mesh, rng):
    """derived variables as solution variables: edit / solve histories compared
    with freshly built variables; shared BC objects; failing solver + retry"""
    bc = random_BCs(mesh, rng, 'robin')
    u = pf.CellVariable(mesh, rng.uniform(0.5, 2, size=tuple(mesh.dims)), bc)
    v = pf.CellVariable(mesh, rng.uniform(0.5, 2, size=tuple(mesh.dims)), bc)
    w = u * v + 1.0           # derived from two variables sharing `bc`
    z = (u > v)
    ok(w.BCs is not bc and z.BCs is not bc and w.BCs is not z.BCs,
       name + ' BC objects of derived variables')
    D = pf.FaceVariable(mesh, 0.7)
    beta = 0.3 + abs(u)
    src = 1.0 + 0.1 * w
    terms = [-pf.diffusionTerm(D), pf.linearSourceTerm(beta),
             pf.constantSourceTerm(src)]
    wb, zb = snap_cell(w), snap_cell(z)
    # edit the shared object: both sharers follow, derived ones do not
    bc.left.fixedValue(3.0)
    bc.right.a[:] = 0.02
    pf.solvePDE(u, terms)
    pf.solvePDE(v, terms)
    ref = pf.CellVariable(mesh, 0.0, copy.deepcopy(bc))
    pf.solvePDE(ref, terms)
    ok(close(u._value, ref._value) and close(v._value, ref._value),
       name + ' sharers after BC edit')
    ok(cell_equal(snap_cell(w), wb) and cell_equal(snap_cell(z), zb),
       name + ' derived variables followed the shared BC object')
    u_solved, v_solved = snap_cell(u), snap_cell(v)
    # derived variables solved directly, with failing solver and retry
    for var in (w, z):
        fresh = fresh_like(var)
        solver = FailingSolver(1)
        try:
            pf.solvePDE(var, terms, externalsolver=solver)
            ok(False, name + ' failing solver swallowed')
        except RuntimeError:
            pass
        pf.solvePDE(var, terms, externalsolver=solver)
        pf.solvePDE(fresh, terms)
        ok(close(var._value, fresh._value), name + ' derived variable solved')
        # edit its BCs (periodic flag where allowed), solve again
        var.BCs.right.fixedValue(-1.0)
        var.BCs.left.c[:] = 0.25
        if type(mesh) in (pf.Grid2D, pf.Grid3D):
            var.BCs.top.periodic = True
        fresh = fresh_like(var)
        pf.solvePDE(var, terms)
        pf.solvePDE(fresh, terms)
        ok(close(var._value, fresh._value), name + ' derived variable, BCs edited')
        ok(cell_equal(snap_cell(u), u_solved) and cell_equal(snap_cell(v), v_solved),
           name + ' operands touched by edits of derived variables')
    # operand edited after deriving: result must not follow
    a = rand_cell(mesh, rng, 'dirichlet')
    r = a / 2.0
    rb = snap_cell(r)
    a.BCs.left.fixedValue(9.0)
    a.value[...] = 5.0
    a.apply_BCs()
    pf.solvePDE(a, terms)
    ok(cell_equal(snap_cell(r), rb), name + ' result followed its operand')


def check_time_stepping(name, mesh, rng, kind):
    X = pf.cellLocations(mesh)
    X = X if isinstance(X, pf.CellVariable) else X[0]
    alpha = 1.0 + X * X / (2.0 + X)            # per-cell alpha from operators
    alpha_m = 1.0 + 2.0 * (X > float(np.mean(X.value)))   # mask-based alpha
    D = pf.FaceVariable(mesh, 0.6)
    beta = 0.5 + 0.25 * abs(X - 0.3)
    src = alpha + 0.3 * beta
    bc = random_BCs(mesh, rng, kind)
    terms = [-pf.diffusionTerm(D), pf.linearSourceTerm(beta),
             pf.constantSourceTerm(src)]
    phi_s = pf.CellVariable(mesh, 0.0, bc)
    pf.solvePDE(phi_s, terms)
    steady = np.array(phi_s._value)
    scale = np.max(np.abs(steady))
    for al in (1.0, 3.5, alpha, alpha_m):
        for dt in 10.0 ** np.arange(-6, 7, 2):
            old = phi_s.copy()
            new = old * 1.0            # derived variable as solution variable
            tt = [pf.transientTerm(old, dt, al)] + terms
            solver = FailingSolver(1)
            try:
                pf.solvePDE(new, tt, externalsolver=solver)
                ok(False, name + ' failing solver swallowed')
            except RuntimeError:
                pass
            pf.solvePDE(new, tt, externalsolver=solver)
            ok(np.max(np.abs(new._value - steady)) <= 1e-8 * scale,
               f'{name}/{kind}/dt={dt}: steady state not a fixed point')
            ok(same(old._value, steady), name + ' old field changed')
        old = pf.CellVariable(mesh, rng.uniform(0.5, 2, size=tuple(mesh.dims)),
                              copy.deepcopy(bc))
        ov = np.array(old.value)
        new = old + 0.0
        pf.solvePDE(new, [pf.transientTerm(old, 1e13, al)] + terms)
        ok(np.max(np.abs(new.value - phi_s.value)) <= 1e-8 * scale,
           f'{name}/{kind}: dt->inf')
        new = old + 0.0
        pf.solvePDE(new, [pf.transientTerm(old, 1e-13, al)] + terms)
        ok(np.max(np.abs(new.value - ov)) <= 1e-8 * scale, f'{name}/{kind}: dt->0')
        # multi-step sequence converges to the steady state
        phi = old + 0.0
        for _ in range(10):
            pf.solvePDE(phi, [pf.transientTerm(phi.copy(), 50.0, al)] + terms)
        ok(np.max(np.abs(phi.value - phi_s.value)) <= 1e-6 * scale,
           f'{name}/{kind}: multi-step')
    # explicit step on a derived variable; result fed to the implicit solver
    old = 0.5 * pf.CellVariable(mesh, rng.uniform(0.5, 2, size=tuple(mesh.dims)),
                                copy.deepcopy(bc))
    b = snap_cell(old)
    RHS = pf.constantSourceTerm(-abs(src))
    dt = 1e-3
    new = pf.solveExplicitPDE(old, dt, RHS)
    ok(cell_equal(snap_cell(old), b), name + ' explicit: input changed')
    expect = np.array(old.value) + dt * interior(mesh, RHS.reshape(old._value.shape))
    ok(close(new.value, expect, rtol=1e-13, atol=0), name + ' explicit update')
    ok(ghosts_consistent(new), name + ' explicit: BCs re-imposed')
    impl = old.copy()
    pf.solvePDE(impl, [pf.transientTerm(old, dt, 1.0), RHS])
    ok(np.max(np.abs(impl.value - new.value)) <= 1e-9 * max(1.0, scale),
       name + ' explicit vs implicit (pure source)')
    ref = fresh_like(new)
    tt = [pf.transientTerm(new.copy(), 0.1, alpha)] + terms
    pf.solvePDE(new, tt)
    pf.solvePDE(ref, tt)
    ok(close(new._value, ref._value), name + ' explicit result in solvePDE')


def main():
    rng = np.random.default_rng(314159)
    for name, mesh in all_meshes():
        check_operators(name, mesh, rng)
        check_histories(name, mesh, rng)
        for kind in ('dirichlet', 'robin', 'periodic-one-side'):
            check_time_stepping(name, mesh, rng, kind)
    print(f'check 3: {NCHECK[0]} assertions passed')


if __name__ == '__main__':
    main()
    sys.exit(0)
