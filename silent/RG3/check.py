# ---------------------------------------------------------------------------
# Common toolkit (duplicated verbatim in every check.py so that each script is
# standalone).  Only the public API of PyFVTool plus the documented per-grid
# builder functions of the sub-modules are used.
# ---------------------------------------------------------------------------
import copy
import sys
import warnings

import numpy as np
import scipy.sparse as sp
from scipy.sparse.linalg import spsolve

import pyfvtool as pf

warnings.simplefilter("ignore")
RNG = np.random.default_rng(20260924)
NCHECK = [0]


def ok(cond, msg):
    NCHECK[0] += 1
    if not cond:
        raise AssertionError(msg)


def faces(n, lo=0.1, hi=1.3):
    x = np.sort(RNG.uniform(lo, hi, n + 1))
    x[0] = lo
    x[-1] = hi
    return x


def meshes():
    """All 9 grid classes, each uniform and non-uniform."""
    return [
        ("Grid1D/u", pf.Grid1D(6, 1.5)),
        ("Grid1D/n", pf.Grid1D(faces(5))),
        ("Cylindrical1D/u", pf.CylindricalGrid1D(6, 1.5)),
        ("Cylindrical1D/n", pf.CylindricalGrid1D(faces(5))),
        ("Spherical1D/u", pf.SphericalGrid1D(6, 1.5)),
        ("Spherical1D/n", pf.SphericalGrid1D(faces(5))),
        ("Grid2D/u", pf.Grid2D(4, 3, 1.0, 2.0)),
        ("Grid2D/n", pf.Grid2D(faces(3), faces(4))),
        ("Cylindrical2D/u", pf.CylindricalGrid2D(4, 3, 1.0, 2.0)),
        ("Cylindrical2D/n", pf.CylindricalGrid2D(faces(3), faces(4))),
        ("Polar2D/u", pf.PolarGrid2D(4, 3, 1.0, 2 * np.pi)),
        ("Polar2D/n", pf.PolarGrid2D(faces(3), faces(4, 0.0, 6.0))),
        ("Grid3D/u", pf.Grid3D(3, 2, 4, 1.0, 2.0, 3.0)),
        ("Grid3D/n", pf.Grid3D(faces(2), faces(3), faces(2))),
        ("Cylindrical3D/u", pf.CylindricalGrid3D(3, 2, 4, 1.0, 2 * np.pi, 3.0)),
        ("Cylindrical3D/n", pf.CylindricalGrid3D(faces(2), faces(3, 0.0, 6.0), faces(2))),
        ("Spherical3D/u", pf.SphericalGrid3D(3, 2, 4, 1.0, np.pi, 2 * np.pi)),
        ("Spherical3D/n", pf.SphericalGrid3D(faces(2), faces(3, 0.3, 2.8), faces(2, 0.0, 6.0))),
    ]


SUFFIX = {"Grid1D": "1D", "CylindricalGrid1D": "Cylindrical1D",
          "SphericalGrid1D": "Spherical1D", "Grid2D": "2D",
          "CylindricalGrid2D": "Cylindrical2D", "PolarGrid2D": "Polar2D",
          "Grid3D": "3D", "CylindricalGrid3D": "Cylindrical3D",
          "SphericalGrid3D": "Spherical3D"}
FACE_NAMES = ("left", "right", "bottom", "top", "back", "front")
COMPS = ("_xvalue", "_yvalue", "_zvalue")


def ndim(m):
    return len(m.dims)


def per_grid(module, stem, m):
    return getattr(module, stem + SUFFIX[type(m).__name__])


def interior(m):
    return (slice(1, -1),) * ndim(m)


def interior_rows(m):
    return m.cell_numbers()[interior(m)].ravel()


def ghost_rows(m):
    mask = np.ones(int(np.prod(m.dims + 2)), dtype=bool)
    mask[interior_rows(m)] = False
    return np.nonzero(mask)[0]


def noncorner_rows(m):
    """interior cells + ghost cells that touch the domain through a face"""
    cnt = np.zeros(tuple(m.dims + 2), dtype=int)
    for ax in range(ndim(m)):
        idx = [slice(None)] * ndim(m)
        for s in (0, -1):
            idx[ax] = s
            cnt[tuple(idx)] += 1
    return np.nonzero(cnt.ravel() <= 1)[0]


# ----------------------------- snapshots -----------------------------------
def _b(a):
    a = np.asarray(a)
    return (str(a.dtype), a.shape, np.ascontiguousarray(a).tobytes())


def snap_mesh(m):
    out = {"dims": _b(m.dims)}
    for grp in ("cellsize", "cellcenters", "facecenters"):
        g = getattr(m, grp)
        for c in ("_x", "_y", "_z"):
            out[grp + c] = _b(getattr(g, c))
    return out


def snap_bcs(bc):
    out = {}
    for f in FACE_NAMES:
        face = getattr(bc, f)
        out[f] = (_b(face.a), _b(face.b), _b(face.c), bool(face.periodic))
    return out


def snap(x):
    if isinstance(x, pf.FaceVariable):
        return ("FV", id(x.domain), tuple(_b(getattr(x, c)) for c in COMPS))
    if isinstance(x, pf.CellVariable):
        return ("CV", id(x.domain), _b(x._value), snap_bcs(x.BCs))
    if sp.issparse(x):
        return ("SP", x.shape, _b(x.data), _b(x.indices), _b(x.indptr))
    if isinstance(x, (tuple, list)):
        return tuple(snap(y) for y in x)
    if isinstance(x, np.ndarray):
        return ("ND",) + _b(x)
    if hasattr(x, "cellsize"):
        return ("MESH", snap_mesh(x))
    if hasattr(x, "left") and hasattr(x, "front"):
        return ("BC", snap_bcs(x))
    raise TypeError(type(x))


def arrays_of(x):
    """all ndarray buffers reachable from a builder input / output"""
    if isinstance(x, pf.FaceVariable):
        return [getattr(x, c) for c in COMPS]
    if isinstance(x, pf.CellVariable):
        return [x._value]
    if sp.issparse(x):
        return [x.data, x.indices, x.indptr]
    if isinstance(x, (tuple, list)):
        return [a for y in x for a in arrays_of(y)]
    if isinstance(x, np.ndarray):
        return [x]
    if hasattr(x, "cellsize"):
        return [getattr(getattr(x, g), c) for g in ("cellsize", "cellcenters", "facecenters")
                for c in ("_x", "_y", "_z")]
    return []


def pure_call(what, fn, *args):
    """C15: call a builder twice; inputs (and their meshes) byte-unchanged,
    results bit-identical, result buffers alias neither inputs nor the mesh."""
    watched = list(args) + [a.domain for a in args if hasattr(a, "domain")]
    watched = [w for w in watched if not callable(w)]
    before = [snap(w) for w in watched]
    r1 = fn(*args)
    mid = [snap(w) for w in watched]
    r2 = fn(*args)
    after = [snap(w) for w in watched]
    ok(before == mid == after, what + ": an input was modified")
    ok(snap(r1) == snap(r2), what + ": repeated call not bit-identical")
    ins = [a for w in watched for a in arrays_of(w) if a.size]
    for o in arrays_of(r1):
        for i in ins:
            ok(not np.shares_memory(o, i), what + ": result aliases an input/mesh array")
    for o1 in arrays_of(r1):
        for o2 in arrays_of(r2):
            if o1.size:
                ok(not np.shares_memory(o1, o2), what + ": two calls share storage")
    return r1


def close(a, b, what, rtol=1e-10):
    a = np.asarray(a, dtype=float)
    b = np.asarray(b, dtype=float)
    ok(a.shape == b.shape, what + ": shape %s vs %s" % (a.shape, b.shape))
    scale = max(1.0, float(np.max(np.abs(b))) if b.size else 1.0)
    err = float(np.max(np.abs(a - b))) if a.size else 0.0
    ok(err <= rtol * scale, what + ": max abs err %.3e (scale %.3e)" % (err, scale))


def interior_only(what, m, term):
    """C04: a term contributes to interior-cell equations only"""
    g = ghost_rows(m)
    if sp.issparse(term):
        t = sp.csr_array(term)
        ok(t.shape == (np.prod(m.dims + 2),) * 2, what + ": matrix shape")
        ok(np.all(np.diff(t.indptr)[g] == 0), what + ": matrix has entries in ghost rows")
    else:
        ok(term.shape == (np.prod(m.dims + 2),), what + ": vector shape")
        ok(np.all(term[g] == 0.0), what + ": vector has entries in ghost rows")


# ----------------------------- variables -----------------------------------
def rand_face(m, kind="mixed"):
    f = pf.FaceVariable(m, 1.0)
    for c in COMPS:
        a = getattr(f, c)
        if a.size == 0:
            continue
        if kind == "mixed":          # both signs, exact zeros and a -0.0
            v = RNG.normal(size=a.shape)
            v[RNG.random(a.shape) < 0.25] = 0.0
            v.flat[0] = -0.0
        elif kind == "int":
            v = RNG.integers(-2, 3, size=a.shape)
        elif kind == "pos":
            v = RNG.uniform(0.2, 1.5, size=a.shape)
        elif kind == "neg":
            v = -RNG.uniform(0.2, 1.5, size=a.shape)
        setattr(f, c, v)
    return f


def used_faces(m):
    return FACE_NAMES[0:2 * ndim(m)]


def rand_bcs(m, periodic=()):
    """Robin / Dirichlet mix on every used face; faces listed in `periodic`
    get the periodic flag (one side only is enough for the library)."""
    bc = pf.BoundaryConditions(m)
    for k, f in enumerate(used_faces(m)):
        face = getattr(bc, f)
        if k % 2 == 0:
            face.a[:] = 0.0
            face.b[:] = 1.0
            face.c[:] = RNG.uniform(0.5, 1.5, size=face.c.shape)
        else:
            face.a[:] = RNG.uniform(0.5, 1.0, size=face.a.shape)
            face.b[:] = RNG.uniform(0.5, 1.0, size=face.b.shape)
            face.c[:] = RNG.uniform(-1.0, 1.0, size=face.c.shape)
    for f in periodic:
        getattr(bc, f).periodic = True
    return bc


def rand_cell(m, bc=None, kind="float"):
    shp = tuple(m.dims)
    if kind == "float":
        v = RNG.uniform(0.5, 2.0, size=shp)
    elif kind == "int_ghost":       # integer array including the ghost cells
        v = RNG.integers(0, 5, size=tuple(m.dims + 2))
    elif kind == "float_ghost":
        v = RNG.normal(size=tuple(m.dims + 2))
    if bc is None:
        return pf.CellVariable(m, v)
    return pf.CellVariable(m, v, bc)


def fresh_twin(phi):
    """a freshly built variable equivalent to phi (own copy of the BCs)"""
    return pf.CellVariable(phi.domain, np.array(phi._value, dtype=phi._value.dtype),
                           copy.deepcopy(phi.BCs))


# ----------------------------- solving --------------------------------------
def assemble(phi, terms):
    """hand-assembled system: boundary equations + sum of the terms"""
    M, RHS = pf.boundaryConditionsTerm(phi.BCs)
    M = sp.csr_array(M, copy=True)
    RHS = np.array(RHS, dtype=float, copy=True)
    for t in terms:
        if isinstance(t, tuple):
            M = M + t[0]
            RHS = RHS + t[1]
        elif t.ndim == 2:
            M = M + t
        else:
            RHS = RHS + t
    return sp.csr_array(M), RHS


def checked_solve(what, phi, terms, externalsolver=None):
    """C04 + C15 around one solvePDE call."""
    m = phi.domain
    tb = snap(terms)
    mb = snap(m)
    bb = snap(phi.BCs)
    if externalsolver is None:
        ret = pf.solvePDE(phi, terms)
    else:
        ret = pf.solvePDE(phi, terms, externalsolver=externalsolver)
    ok(ret is phi, what + ": solvePDE must return the variable it was given")
    ok(snap(terms) == tb, what + ": solvePDE modified a term")
    ok(snap(m) == mb, what + ": solvePDE modified the mesh")
    ok(snap(phi.BCs) == bb, what + ": solvePDE modified the boundary conditions")
    M, RHS = assemble(phi, terms)
    ref = pf.solveMatrixPDE(m, M, RHS)
    close(phi.value, ref.value, what + ": differs from solveMatrixPDE of the hand-assembled system", 1e-9)
    # the interior values stored in phi satisfy every equation of the system
    # (ghost unknowns taken from the raw solution of the same system) ...
    x = np.array(ref._value, dtype=float)
    x[interior(m)] = phi.value
    x = x.ravel()
    scale = max(1.0, float(np.max(np.abs(RHS))), float(abs(M).max()) * float(np.max(np.abs(x))))
    res = M @ x - RHS
    ok(np.max(np.abs(res)) <= 1e-9 * scale, what + ": residual %.3e" % np.max(np.abs(res)))
    # ... and without periodic faces the ghost cells stored in phi do as well
    if not any(getattr(phi.BCs, f).periodic for f in used_faces(m)):
        res = M @ np.asarray(phi._value, dtype=float).ravel() - RHS
        for rows, lab in ((interior_rows(m), "interior"), (noncorner_rows(m), "boundary-equation")):
            ok(np.max(np.abs(res[rows])) <= 1e-9 * scale,
               what + ": %s residual %.3e" % (lab, np.max(np.abs(res[rows]))))
    ok(snap(phi.BCs) == bb, what + ": solveMatrixPDE modified the boundary conditions")
    return phi


class FlakySolver:
    """external solver that fails on its first call, then records its input"""

    def __init__(self):
        self.calls = 0
        self.seen = None

    def __call__(self, A, b):
        self.calls += 1
        if self.calls == 1:
            raise RuntimeError("solver backend not available")
        self.seen = (sp.csr_array(A, copy=True), np.array(b, copy=True))
        return spsolve(A, b)


def retry_after_failure(what, phi, terms):
    """failed external solve leaves everything usable; the retry sees exactly
    the hand-assembled system and gives the default solver's answer"""
    phi.apply_BCs()
    twin = fresh_twin(phi)
    before = snap(phi)
    tb = snap(terms)
    solver = FlakySolver()
    try:
        pf.solvePDE(phi, terms, externalsolver=solver)
        ok(False, what + ": exception of the external solver was swallowed")
    except RuntimeError:
        pass
    ok(snap(phi) == before, what + ": failed solve changed the variable")
    ok(snap(terms) == tb, what + ": failed solve changed a term")
    checked_solve(what + " (retry)", phi, terms, externalsolver=solver)
    M, RHS = assemble(twin, terms)
    ok(solver.seen is not None and solver.calls == 2, what + ": external solver not used")
    ok(np.array_equal(solver.seen[0].toarray(), M.toarray()) and np.array_equal(solver.seen[1], RHS),
       what + ": external solver did not receive the assembled system")
    checked_solve(what + " (twin)", twin, terms)
    close(phi._value, twin._value, what + ": retry differs from fresh default solve", 1e-9)
# ---------------------------------------------------------------------------

# ===========================================================================
# Refactoring 3: upwind interpolation of a cell variable to the faces
# (averaging.upwindMean on all grid classes).
# ===========================================================================
SUPERBEE = pf.fluxLimiter("SUPERBEE")


def face_like(m, fn):
    f = pf.FaceVariable(m, 0.0)
    for k, c in enumerate(COMPS):
        a = getattr(f, c)
        setattr(f, c, fn(k, a) if a.size else np.array([]))
    return f


def flags(phi):
    return (bool(phi._value.modified), bool(phi.value.modified), bool(phi.BCs.modified), phi.BCs._epoch
            if hasattr(phi.BCs, "_epoch") else None)


def loop_reference(phi, u):
    """face-by-face definition of the upwind mean (zeroth-order hold in the
    flow direction; at the two outer faces the boundary value, i.e. the mean
    of ghost and first cell, replaces the ghost cell; mean of both cells where
    the velocity vanishes).  For an integer cell array the library stores the
    boundary value in the integer work array, i.e. truncated."""
    m = phi.domain
    n = ndim(m)
    v = np.asarray(phi._value)
    is_int = v.dtype.kind in "iub"
    out = []
    for k in range(n):
        uf = np.asarray(getattr(u, COMPS[k]))
        res = np.zeros(uf.shape)
        for pos in np.ndindex(*uf.shape):
            lo = tuple(p + (0 if a == k else 1) for a, p in enumerate(pos))   # cell below the face
            hi = tuple(p + 1 for p in pos)                                    # cell above the face
            mean = 0.5 * (float(v[lo]) + float(v[hi]))
            bnd = float(np.trunc(mean)) if is_int else mean
            if uf[pos] > 0:
                res[pos] = bnd if pos[k] == 0 else float(v[lo])
            elif uf[pos] < 0:
                res[pos] = bnd if pos[k] == m.dims[k] else float(v[hi])
            elif uf[pos] == 0:
                res[pos] = mean
            else:                      # NaN velocity: no branch selected
                res[pos] = 0.0
        out.append(res)
    return out


def test_upwind_mean(name, m):
    n = ndim(m)
    bc = rand_bcs(m)
    cells = {"interior+BCs": rand_cell(m, bc), "float_ghost": rand_cell(m, kind="float_ghost"),
             "int_ghost": rand_cell(m, kind="int_ghost"), "scalar": pf.CellVariable(m, 1.5)}
    vels = {k: rand_face(m, k) for k in ("mixed", "int", "pos", "neg")}
    for ck, phi in cells.items():
        for vk, u in vels.items():
            what = "%s upwindMean(%s,%s)" % (name, ck, vk)
            fl = flags(phi)
            r = pure_call(what, pf.upwindMean, phi, u)
            ok(flags(phi) == fl, what + ": modification tracking of the variable was touched")
            ok(isinstance(r, pf.FaceVariable) and r.domain is m, what + ": result must be a FaceVariable on the mesh")
            ref = loop_reference(phi, u)
            for k in range(3):
                a = getattr(r, COMPS[k])
                if k < n:
                    ok(a.shape == getattr(u, COMPS[k]).shape and a.dtype == np.float64, what + ": component shape/dtype")
                    ok(np.array_equal(np.asarray(a), ref[k]), what + ": differs from the face-by-face definition")
                else:
                    ok(a.size == 0, what + ": unused component must be empty")
            # results are private: editing them in place leaks nowhere
            keep = snap(pf.upwindMean(phi, u))
            r._xvalue[...] = -7.0
            ok(snap(pf.upwindMean(phi, u)) == keep, what + ": edited result leaked into the next call")
    phi = cells["interior+BCs"]
    u = vels["mixed"]
    # only the sign of the velocity matters
    ok(snap(pf.upwindMean(phi, u)) == snap(pf.upwindMean(phi, face_like(m, lambda k, t: 3.0 * getattr(u, COMPS[k])))),
       name + ": upwindMean depends on more than the sign of u")
    # a uniform field is reproduced; linear in phi
    one = pf.upwindMean(pf.CellVariable(m, 2.5), u)
    for k in range(n):
        ok(np.all(np.asarray(getattr(one, COMPS[k])) == 2.5), name + ": uniform field not reproduced")
    psi = rand_cell(m, kind="float_ghost")
    chi = rand_cell(m, kind="float_ghost")
    mix = pf.CellVariable(m, 2.0 * np.asarray(psi._value) - 0.5 * np.asarray(chi._value))
    a, b, c = pf.upwindMean(psi, u), pf.upwindMean(chi, u), pf.upwindMean(mix, u)
    for k in range(n):
        close(getattr(c, COMPS[k]), 2.0 * np.asarray(getattr(a, COMPS[k])) - 0.5 * np.asarray(getattr(b, COMPS[k])),
              name + ": upwindMean not linear in phi", 1e-12)
    # vanishing velocity: plain two-cell average (= arithmeticMean on a uniform grid)
    z = pf.upwindMean(psi, pf.FaceVariable(m, 0.0))
    if name.endswith("/u"):
        am = pf.arithmeticMean(psi)
        for k in range(n):
            close(getattr(z, COMPS[k]), getattr(am, COMPS[k]), name + ": u=0 must give the arithmetic mean", 1e-12)
    # consistency with the implicit operator:  div(u * upwindMean(phi,u)) == convectionUpwindTerm(u) phi
    if type(m) is not pf.SphericalGrid1D:
        up = pf.upwindMean(psi, u)
        flux = face_like(m, lambda k, t: getattr(u, COMPS[k]) * getattr(up, COMPS[k]))
        rows = interior_rows(m)
        lhs = pf.divergenceTerm(flux)
        rhs = pf.convectionUpwindTerm(u) @ np.asarray(psi._value).ravel()
        close(lhs[rows], rhs[rows], name + ": explicit upwind flux inconsistent with convectionUpwindTerm", 1e-10)
    # the variable is only read: in-place edit of phi *after* the call must not change an earlier result
    r = pf.upwindMean(phi, u)
    keep = snap(r)
    phi.value = phi.value + 1.0
    ok(snap(r) == keep, name + ": result aliases the cell values")
    # ... and a dirty variable (edited, BCs not yet re-applied) is read as is, without being cleaned
    fl = flags(phi)
    before = snap(phi)
    pf.upwindMean(phi, u)
    ok(snap(phi) == before and flags(phi) == fl and fl[0], name + ": upwindMean touched a dirty variable")
    # retained views stay valid
    view = phi._value[1:]
    keepv = np.array(view)
    pf.upwindMean(phi, u)
    ok(np.array_equal(view, keepv) and np.shares_memory(view, phi._value), name + ": retained view of phi")


PERIODIC = {"Grid1D": ("left",), "Grid2D": ("top",), "CylindricalGrid2D": ("bottom",),
            "PolarGrid2D": ("top",), "Grid3D": ("front", "left"), "CylindricalGrid3D": ("bottom",),
            "SphericalGrid3D": ("back",)}


def advective_source(phi, u):
    """- div(u * upwindMean(phi, u)) as a source vector"""
    up = pf.upwindMean(phi, u)
    return -pf.divergenceTerm(face_like(phi.domain, lambda k, t: getattr(u, COMPS[k]) * getattr(up, COMPS[k])))


def build_terms(phi, u, D, dt):
    """transient - diffusion = explicit upwind advection"""
    Mt, RHSt = pf.transientTerm(phi, dt, 1.0)
    return [(Mt, RHSt), -pf.diffusionTerm(D), advective_source(phi, u)]


def test_solve(name, m, periodic=()):
    bc = rand_bcs(m, periodic)
    phi = rand_cell(m, bc)
    u = rand_face(m, "mixed")
    D = pf.FaceVariable(m, 0.3)
    dt = 0.02
    Md = pf.diffusionTerm(D)
    keep = snap([Md, u, D])
    for step in range(3):
        twin = pf.CellVariable(m, np.array(phi._value), copy.deepcopy(phi.BCs))
        Mt, RHSt = pf.transientTerm(phi, dt, 1.0)
        adv = advective_source(phi, u)
        terms = [Mt, RHSt, -Md, adv] if step % 2 else [adv, (Mt, RHSt), -Md]
        checked_solve("%s step %d" % (name, step), phi, terms)
        checked_solve("%s step %d twin" % (name, step), twin, build_terms(twin, copy.deepcopy(u), copy.deepcopy(D), dt))
        close(phi._value, twin._value, "%s step %d: long-lived variable vs freshly built one" % (name, step), 1e-11)
        ok(snap([Md, u, D]) == keep, name + ": reused object changed in the time loop")
    # explicit step, result fed to the implicit solver
    phi.apply_BCs()
    before = snap(phi)
    rhs = advective_source(phi, u)
    phi_e = pf.solveExplicitPDE(phi, 0.01, rhs)
    ok(snap(phi) == before, name + ": explicit step modified its input")
    ok(phi_e is not phi and not np.shares_memory(phi_e._value, phi._value), name + ": explicit result aliases input")
    close(phi_e.value, phi.value + 0.01 * rhs.reshape(tuple(m.dims + 2))[interior(m)], name + ": explicit update", 1e-12)
    checked_solve(name + " implicit after explicit", phi_e, build_terms(phi_e, u, D, dt))
    # upwind mean of an explicit result equals that of a freshly built equivalent variable
    tw = pf.CellVariable(m, np.array(phi_e._value), copy.deepcopy(phi_e.BCs))
    ok(snap(pf.upwindMean(phi_e, u)) == snap(pf.upwindMean(tw, u)), name + ": upwindMean of solver result vs fresh variable")
    # integer (ghost-including) start variable and integer velocities
    phi_i = rand_cell(m, copy.deepcopy(bc), kind="int_ghost")
    checked_solve(name + " integer start", phi_i, build_terms(phi_i, rand_face(m, "int"), D, dt))


def test_shared_bcs(name, m):
    bc = rand_bcs(m)
    A = rand_cell(m, bc)
    B = rand_cell(m, bc)
    u = rand_face(m, "mixed")
    D = pf.FaceVariable(m, 0.3)

    def twin_of(v):
        return pf.CellVariable(m, np.array(v.value), copy.deepcopy(v.BCs))

    for step, (var, edit) in enumerate([(A, None), (B, "right"), (A, None), (B, None), (A, "left")]):
        if edit is not None:
            face = getattr(bc, edit)
            face.c[:] = face.c + 0.5
        var.apply_BCs()                      # ghost cells feed upwindMean: bring them up to date
        tw = twin_of(var)
        ok(snap(pf.upwindMean(var, u)) == snap(pf.upwindMean(tw, u)),
           "%s shared BCs %d: upwindMean sees stale ghost cells" % (name, step))
        t = build_terms(var, u, D, 0.1)
        checked_solve("%s shared BCs %d" % (name, step), var, t)
        checked_solve("%s shared BCs %d twin" % (name, step), tw, t)
        close(var._value, tw._value, "%s shared BCs %d: stale boundary data" % (name, step), 1e-11)


def test_linearity(name, m):
    bc = rand_bcs(m)
    u = rand_face(m, "mixed")
    M = [-pf.diffusionTerm(pf.FaceVariable(m, 0.4)), pf.linearSourceTerm(pf.CellVariable(m, 5.0))]
    src = [advective_source(rand_cell(m, kind="float_ghost"), u) for _ in range(2)]

    def sol(r):
        v = rand_cell(m, copy.deepcopy(bc))
        return np.array(pf.solvePDE(v, M + r).value)

    x0, x1, x2, x12 = sol([]), sol([src[0]]), sol([src[1]]), sol([src[0], -2.0 * src[1]])
    close(x12 - x0, (x1 - x0) - 2.0 * (x2 - x0), name + ": solution not affine in the source vectors", 1e-9)


def main():
    for name, m in meshes():
        test_upwind_mean(name, m)
        test_solve(name, m)
        per = PERIODIC.get(type(m).__name__)
        if per:
            test_solve(name + " periodic", m, per)
        test_shared_bcs(name, m)
        if name.endswith("/n"):
            test_linearity(name, m)
            retry_after_failure(name + " flaky solver", rand_cell(m, rand_bcs(m)),
                                build_terms(rand_cell(m, rand_bcs(m)), rand_face(m), pf.FaceVariable(m, 0.3), 0.1))
    print("check 3: %d assertions passed" % NCHECK[0])


if __name__ == "__main__":
    main()
    sys.exit(0)
