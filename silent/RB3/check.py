"""
check.py for refactoring 3 (diffusion.py: the three 1D diffusion builders
share one helper that writes the 3-point stencil directly in CSR form).

Run as:  PYTHONPATH=<tree>/src /venv/bin/python check.py
Exits 0 on the clean tree and on the patched tree.
"""
import copy
import sys
import warnings

import numpy as np
from scipy.sparse import csr_array, issparse
from scipy.sparse.linalg import spsolve

import pyfvtool as pf

NCHECK = [0]


def ok(cond, msg):
    NCHECK[0] += 1
    if not cond:
        print("FAIL:", msg)
        sys.exit(1)


def close(a, b, msg, rtol=1e-10):
    a = np.asarray(a, dtype=float)
    b = np.asarray(b, dtype=float)
    ok(a.shape == b.shape, msg + " (shape)")
    scale = max(1.0, float(np.max(np.abs(b))) if b.size else 1.0)
    err = float(np.max(np.abs(a - b))) if b.size else 0.0
    ok(np.isfinite(err) and err <= rtol*scale, f"{msg}: err={err:g} scale={scale:g}")


def snap(obj):
    if isinstance(obj, tuple):
        return tuple(snap(o) for o in obj)
    if issparse(obj):
        return (obj.shape, obj.data.tobytes(), obj.indices.tobytes(),
                obj.indptr.tobytes(), str(obj.data.dtype))
    a = np.asarray(obj)
    return (a.shape, a.tobytes(), str(a.dtype))


def snap_mesh(m):
    out = [snap(np.asarray(m.dims))]
    for grp in (m.cellsize, m.cellcenters, m.facecenters):
        for comp in ('_x', '_y', '_z'):
            out.append(snap(getattr(grp, comp)))
    return tuple(out)


def snap_face(F):
    return (snap(F._xvalue), snap(F._yvalue), snap(F._zvalue), snap_mesh(F.domain))


def snap_bc(BC):
    out = []
    for name in ('left', 'right', 'bottom', 'top', 'back', 'front'):
        f = getattr(BC, name)
        out.append((snap(f.a), snap(f.b), snap(f.c), bool(f.periodic), bool(f.modified)))
    return tuple(out)


def dims_of(m):
    return tuple(int(d) for d in m.dims)


XF = np.array([0.0, 0.1, 0.25, 0.45, 0.7, 1.0])
YF = np.array([0.0, 0.3, 0.5, 1.0])
ZF = np.array([0.0, 0.4, 1.0])


def grids_1d():
    return [
        pf.Grid1D(6, 1.0),
        pf.Grid1D(XF),
        pf.Grid1D(1, 2.0),
        pf.Grid1D(2, 2.0),
        pf.CylindricalGrid1D(5, 1.0),
        pf.CylindricalGrid1D(XF + 0.3),
        pf.CylindricalGrid1D(1, 1.0),
        pf.SphericalGrid1D(5, 1.0),
        pf.SphericalGrid1D(XF + 0.3),
        pf.SphericalGrid1D(1, 1.0),
    ]


def grids_nd():
    return [
        pf.Grid2D(4, 3, 1.0, 2.0),
        pf.Grid2D(XF, YF),
        pf.CylindricalGrid2D(4, 3, 1.0, 2.0),
        pf.PolarGrid2D(4, 5, 1.0, 2*np.pi),
        pf.Grid3D(3, 4, 2, 1.0, 2.0, 3.0),
        pf.Grid3D(XF, YF, ZF),
        pf.CylindricalGrid3D(3, 4, 2, 1.0, 2*np.pi, 1.0),
        pf.SphericalGrid3D(3, 4, 5, 1.0, np.pi, 2*np.pi),
    ]


def oracle_1d(m, Dx):
    """
    Independent flux-form discretisation of div(D grad phi), cell by cell:
        1/V_i * [ A_e D_e (phi_{i+1}-phi_i)/d_e - A_w D_w (phi_i-phi_{i-1})/d_w ]
    (dense matrix, rows of the two ghost cells empty)
    """
    Nx = dims_of(m)[0]
    DX = np.asarray(m.cellsize._x, dtype=float)       # includes ghost cells
    xf = np.asarray(m.facecenters._x, dtype=float)
    xc = np.asarray(m.cellcenters._x, dtype=float)
    if type(m) is pf.Grid1D:
        area = np.ones(Nx+1)
        vol = DX[1:-1]
    elif type(m) is pf.CylindricalGrid1D:
        area = xf
        vol = xc*DX[1:-1]
    elif type(m) is pf.SphericalGrid1D:
        area = xf**2
        vol = (xf[1:]**3 - xf[:-1]**3)/3.0
    else:
        raise AssertionError
    dist = 0.5*(DX[:-1] + DX[1:])                      # centre-to-centre, per face
    A = np.zeros((Nx+2, Nx+2))
    for i in range(1, Nx+1):
        fw, fe = i-1, i                                # faces of cell i
        ke = area[fe]*Dx[fe]/(dist[fe]*vol[i-1])
        kw = area[fw]*Dx[fw]/(dist[fw]*vol[i-1])
        A[i, i+1] += ke
        A[i, i-1] += kw
        A[i, i] -= ke + kw
    return A


def make_bc(m, variant):
    BC = pf.BoundaryConditions(m)
    nd = len(dims_of(m))
    BC.left.a[:] = 0.0
    BC.left.b[:] = 2.0
    BC.left.c[:] = 3.0
    BC.right.a[:] = 1.0
    BC.right.b[:] = 0.5
    BC.right.c[:] = 0.25
    if variant == 1 and nd == 1 and type(m) is pf.Grid1D:
        BC.right.periodic = True              # flag on one side only
    if nd >= 2:
        if variant == 0:
            BC.top.periodic = True
        else:
            BC.bottom.a[:] = 0.0
            BC.bottom.b[:] = 1.0
            BC.bottom.c[:] = 0.4
    if nd == 3 and variant == 1:
        BC.back.periodic = True
    return BC


def random_D(m, rng, positive=True):
    D = pf.FaceVariable(m, 1.0)
    lo = 0.5 if positive else -2.0
    D._xvalue[:] = rng.uniform(lo, 2.0, D._xvalue.shape)
    if len(dims_of(m)) >= 2:
        D._yvalue[:] = rng.uniform(lo, 2.0, D._yvalue.shape)
    if len(dims_of(m)) == 3:
        D._zvalue[:] = rng.uniform(lo, 2.0, D._zvalue.shape)
    return D


def check_builder(m, rng, one_d):
    name = type(m).__name__ + str(dims_of(m))
    dims = dims_of(m)
    n = int(np.prod([d+2 for d in dims]))
    ghost = np.ones(tuple(d+2 for d in dims), dtype=bool)
    ghost[tuple(slice(1, -1) for _ in dims)] = False
    ghost = ghost.ravel()

    for positive in (True, False):
        D = random_D(m, rng, positive)
        if one_d:
            D._xvalue[0] = 0.0                 # an exactly vanishing coefficient
        before = snap_face(D)
        M1 = pf.diffusionTerm(D)
        M2 = pf.diffusionTerm(D)
        ok(snap_face(D) == before, f"{name}: diffusionTerm modified its argument / the mesh")
        ok(isinstance(M1, csr_array) and M1.shape == (n, n) and M1.dtype == np.float64,
           f"{name}: type/shape/dtype of the diffusion matrix")
        ok(M1 is not M2 and snap(M1) == snap(M2), f"{name}: repeated calls not bit-identical")
        ok(M1.has_sorted_indices and M1.has_canonical_format, f"{name}: CSR not canonical")
        ok(np.all(np.diff(M1.indptr)[ghost] == 0), f"{name}: stored elements in boundary rows")
        dense = M1.toarray()
        ok(np.all(dense[ghost, :] == 0.0), f"{name}: boundary rows not empty")
        if type(m) is not pf.PolarGrid2D:
            rs = np.abs(dense.sum(axis=1))
            ok(np.max(rs) <= 1e-11*max(1.0, np.abs(dense).max()), f"{name}: constants not in the null space")
        if one_d:
            ok(np.all(np.diff(M1.indptr)[~ghost] == 3), f"{name}: 3 stored elements per inner row expected")
            close(dense, oracle_1d(m, np.asarray(D._xvalue)), f"{name}: matrix vs flux-form oracle", rtol=1e-13)
        # no aliasing of the coefficient or mesh arrays, in either direction
        for arr in (D._xvalue, D._yvalue, D._zvalue, m.cellsize._x, m.facecenters._x, m.cellcenters._x):
            if np.asarray(arr).size:
                ok(not np.shares_memory(M1.data, arr), f"{name}: matrix data aliases an input array")
        keep = snap(M1)
        saved = D._xvalue.copy()
        D._xvalue[:] = 1e6
        ok(snap(M1) == keep, f"{name}: matrix follows a later edit of the coefficient")
        D._xvalue[:] = saved
        M2.data[:] = -1.0
        M2.indices[:] = 0
        ok(snap_face(D) == before and snap(pf.diffusionTerm(D)) == keep,
           f"{name}: in-place edit of a returned matrix leaks")
        # algebra used by callers
        x = rng.uniform(-1, 1, n)
        close((-M1) @ x, -(dense @ x), f"{name}: negation", rtol=1e-13)
        close((M1 + M1 - 0.5*M1) @ x, 1.5*(dense @ x), f"{name}: sums/scaling", rtol=1e-13)
        close(M1.T.toarray(), dense.T, f"{name}: transpose", rtol=0)
        # linear in D
        D2 = pf.FaceVariable(m, 1.0)
        D2._xvalue[:] = 2.0*D._xvalue
        if D._yvalue.size:
            D2._yvalue[:] = 2.0*D._yvalue
        if D._zvalue.size:
            D2._zvalue[:] = 2.0*D._zvalue
        close(pf.diffusionTerm(D2).toarray(), 2.0*dense, f"{name}: linearity in D", rtol=1e-14)

    # coefficient given as explicit component arrays, integer dtype
    if one_d:
        Di = pf.FaceVariable(m, np.arange(1, dims[0]+2), np.array([]), np.array([]))
        xi = Di._xvalue.copy()
        Mi = pf.diffusionTerm(Di)
        ok(np.array_equal(Di._xvalue, xi) and Di._xvalue.dtype == xi.dtype, f"{name}: integer coefficient modified")
        close(Mi.toarray(), oracle_1d(m, xi.astype(float)), f"{name}: integer coefficient", rtol=1e-13)
        ok(Mi.dtype == np.float64, f"{name}: dtype with integer coefficient")
        # malformed coefficient array: ValueError from the arithmetic, as before
        if dims[0] >= 2:
            Dbad = pf.FaceVariable(m, np.ones(dims[0]-1), np.array([]), np.array([]))
            raised = False
            try:
                pf.diffusionTerm(Dbad)
            except ValueError:
                raised = True
            ok(raised, f"{name}: malformed (too short) coefficient must raise ValueError")
        ok(snap(pf.diffusionTerm(Di)) == snap(Mi), f"{name}: call after a failed call")


def check_solve(m, rng, one_d):
    name = type(m).__name__ + str(dims_of(m))
    dims = dims_of(m)
    rows_inner = np.zeros(tuple(d+2 for d in dims), dtype=bool)
    rows_inner[tuple(slice(1, -1) for _ in dims)] = True
    rows_inner = rows_inner.ravel()
    D = random_D(m, rng)
    Md = pf.diffusionTerm(D)
    keep = snap(Md)
    old = rng.uniform(0.5, 1.5, dims)
    src = pf.CellVariable(m, rng.uniform(-1, 1, dims))
    Rs = pf.constantSourceTerm(src)
    dt = 0.1
    for variant in (0, 1):
        BC = make_bc(m, variant)
        bsnap = None
        phi = pf.CellVariable(m, old, BC)
        hist = []
        for step in range(3):
            cur = np.array(phi.value, dtype=float, copy=True)
            T = pf.transientTerm(phi, dt)
            terms = [T, -Md, Rs] if step != 1 else [Rs, (-2.0*T[0], -2.0*T[1]), Md, 3.0*T[0], -2.0*Md, 3.0*T[1]]
            out = pf.solvePDE(phi, terms)
            ok(out is phi, f"{name}: identity")
            ok(snap(Md) == keep, f"{name}: diffusion matrix modified by solvePDE")
            # hand-assembled system; for 1D the diffusion part comes from the oracle
            Mbc, RHSbc = pf.boundaryConditionsTerm(BC)
            Mdiff = csr_array(oracle_1d(m, np.asarray(D._xvalue))) if one_d else pf.diffusionTerm(D)
            Mt, Rt = pf.transientTerm(pf.CellVariable(m, cur), dt)
            M = Mbc + Mt - Mdiff
            RHS = RHSbc + Rt + Rs
            ref = pf.solveMatrixPDE(m, M, RHS)
            close(phi.value, ref.value, f"{name}/v{variant}: step {step} vs hand-assembled system")
            full = np.asarray(ref._value, dtype=float).ravel()
            res = ((Mt - Md) @ full - (Rt + Rs))[rows_inner]
            ok(np.max(np.abs(res)) <= 1e-9*max(1.0, np.abs(M.data).max()*np.abs(full).max()),
               f"{name}: interior residual")
            fresh = pf.CellVariable(m, np.array(phi.value, copy=True), copy.deepcopy(BC))
            close(phi._value, fresh._value, f"{name}: ghost cells vs fresh variable", rtol=1e-12)
            hist.append(np.array(phi._value, copy=True))
        # the same history with everything rebuilt at every step, shared BC object
        BCs = make_bc(m, variant)
        p2 = pf.CellVariable(m, old, BCs)
        other = pf.CellVariable(m, 0.0, BCs)          # second user of the BC object
        for step in range(3):
            T = pf.transientTerm(p2, dt)
            pf.solvePDE(p2, [T, -pf.diffusionTerm(D), pf.constantSourceTerm(src)])
            close(p2._value, hist[step], f"{name}: history vs rebuilt terms, step {step}", rtol=1e-11)
        # steady state with an external solver + retry after a failing solver
        BCd = pf.BoundaryConditions(m)
        BCd.left.a[:] = 0.0
        BCd.left.b[:] = 1.0
        BCd.left.c[:] = 1.0
        BCd.right.a[:] = 0.0
        BCd.right.b[:] = 3.0
        BCd.right.c[:] = 6.0
        p3 = pf.CellVariable(m, 0.0, BCd)
        beta = pf.linearSourceTerm(pf.CellVariable(m, 0.3))
        calls = []

        def failing(M, b):
            calls.append(1)
            raise RuntimeError("solver failed")

        raised = False
        try:
            pf.solvePDE(p3, [-Md, beta, Rs], externalsolver=failing)
        except RuntimeError:
            raised = True
        ok(raised and len(calls) == 1, f"{name}: failing solver")
        seen = []

        def recording(M, b):
            seen.append((csr_array(M, copy=True), np.array(b, copy=True)))
            return spsolve(M, b)

        pf.solvePDE(p3, [-Md, beta, Rs], externalsolver=recording)
        p4 = pf.CellVariable(m, 5.0, copy.deepcopy(BCd))
        pf.solvePDE(p4, [Rs, beta, -Md])
        close(p3._value, p4._value, f"{name}: retry after failing solver == fresh variable")
        Mbc, RHSbc = pf.boundaryConditionsTerm(BCd)
        Mh = Mbc - Md + beta
        dM = seen[0][0] - Mh
        ok((abs(dM).max() if dM.nnz else 0.0) <= 1e-12*abs(Mh).max(), f"{name}: external solver matrix")
        close(seen[0][1], RHSbc + Rs, f"{name}: external solver rhs", rtol=1e-13)
        ok(snap(Md) == keep, f"{name}: diffusion matrix modified")


def check_exact_1d():
    """Cartesian 1D, constant D, Dirichlet both ends: linear profile is exact"""
    for m in (pf.Grid1D(8, 2.0), pf.Grid1D(XF*2.0)):
        BC = pf.BoundaryConditions(m)
        BC.left.a[:] = 0.0
        BC.left.b[:] = 1.0
        BC.left.c[:] = 1.0
        BC.right.a[:] = 0.0
        BC.right.b[:] = 1.0
        BC.right.c[:] = 5.0
        phi = pf.CellVariable(m, 0.0, BC)
        pf.solvePDE(phi, [-pf.diffusionTerm(pf.FaceVariable(m, 0.7))])
        close(phi.value, 1.0 + 2.0*np.asarray(m.cellcenters._x), "Grid1D: exact linear profile", rtol=1e-12)


def main():
    warnings.simplefilter("ignore")
    rng = np.random.default_rng(5)
    for m in grids_1d():
        check_builder(m, rng, True)
        if dims_of(m)[0] >= 2:
            check_solve(m, rng, True)
    for m in grids_nd():
        check_builder(m, rng, False)
        check_solve(m, rng, False)
    check_exact_1d()
    print(f"check 3: all {NCHECK[0]} assertions passed")


if __name__ == "__main__":
    main()
