"""
Standalone property check for PyFVTool boundary handling (C03 / C09).

Run as:   PYTHONPATH=<tree>/src /venv/bin/python check.py

Only the public API is driven (mesh classes, BoundaryConditions, CellVariable,
term builders, solvePDE / solveExplicitPDE, boundaryConditionsTerm).  The full
value array `CellVariable._value` (interior + ghost layer) is read, never
written.  The script exits 0 when every assertion holds.

FOCUS (set at the bottom of this header) lists the grid classes that get extra
random configurations / histories; all nine grid classes are always covered.
"""
import sys
import itertools
import warnings

import numpy as np
import pyfvtool as pf

FOCUS = ()          # overwritten per refactoring, see bottom of header
SEED = 20260923
# Refactoring D-3: one signed Robin kernel `_robinGhostValues` computes the
# ghost values of all 2D and 3D grid classes. Extra weight on those grids.
FOCUS = ("Grid2D", "PolarGrid2D", "Grid3D", "CylindricalGrid3D", "SphericalGrid3D")

warnings.filterwarnings("ignore")
RTOL = 1e-9         # tolerance of the residual checks (relation a,b,c)
HTOL = 1e-11        # tolerance history-vs-fresh (same code, same arithmetic)

SIDES = (("left", "right"), ("bottom", "top"), ("back", "front"))
N_CHECKS = [0]


def ok(cond, msg):
    N_CHECKS[0] += 1
    if not cond:
        raise AssertionError(msg)


def close(x, y, tol, msg):
    x = np.asarray(x, dtype=float)
    y = np.asarray(y, dtype=float)
    ok(x.shape == y.shape, f"{msg}: shape {x.shape} != {y.shape}")
    scale = max(1.0, float(np.max(np.abs(y))) if y.size else 1.0)
    err = float(np.max(np.abs(x - y))) if y.size else 0.0
    ok(np.all(np.isfinite(x)) and err <= tol*scale,
       f"{msg}: max abs err {err:.3e} (scale {scale:.3e})")


# --------------------------------------------------------------------------
#  meshes
# --------------------------------------------------------------------------

def nonuniform(rng, n, lo, hi):
    w = rng.uniform(0.6, 1.6, n)
    f = np.concatenate([[0.0], np.cumsum(w)])
    return lo + (hi - lo)*f/f[-1]


def uniform(n, lo, hi):
    return np.linspace(lo, hi, n+1)


def make_mesh(name, rng, uniform_axes=()):
    """Non-uniform mesh of the given class; axes in `uniform_axes` get equal
    spacing (used for axes that are declared periodic)."""
    def ax(k, n, lo, hi):
        if k in uniform_axes:
            return uniform(n, lo, hi)
        return nonuniform(rng, n, lo, hi)
    if name == "Grid1D":
        return pf.Grid1D(ax(0, 6, 0.0, 2.0))
    if name == "CylindricalGrid1D":
        return pf.CylindricalGrid1D(ax(0, 6, 0.3, 2.0))
    if name == "SphericalGrid1D":
        return pf.SphericalGrid1D(ax(0, 6, 0.3, 2.0))
    if name == "Grid2D":
        return pf.Grid2D(ax(0, 4, 0.0, 1.0), ax(1, 5, 0.0, 2.0))
    if name == "CylindricalGrid2D":
        return pf.CylindricalGrid2D(ax(0, 4, 0.2, 1.0), ax(1, 5, 0.0, 2.0))
    if name == "PolarGrid2D":
        return pf.PolarGrid2D(ax(0, 4, 0.2, 1.0), ax(1, 5, 0.0, 2*np.pi))
    if name == "Grid3D":
        return pf.Grid3D(ax(0, 3, 0.0, 1.0), ax(1, 4, 0.0, 2.0),
                         ax(2, 5, 0.0, 1.5))
    if name == "CylindricalGrid3D":
        return pf.CylindricalGrid3D(ax(0, 3, 0.2, 1.0), ax(1, 4, 0.0, 2*np.pi),
                                    ax(2, 5, 0.0, 1.5))
    if name == "SphericalGrid3D":
        return pf.SphericalGrid3D(ax(0, 3, 0.2, 1.0), ax(1, 4, 0.3, 2.6),
                                  ax(2, 5, 0.0, 2*np.pi))
    raise KeyError(name)


ALL_GRIDS = ("Grid1D", "CylindricalGrid1D", "SphericalGrid1D",
             "Grid2D", "CylindricalGrid2D", "PolarGrid2D",
             "Grid3D", "CylindricalGrid3D", "SphericalGrid3D")
RADIAL_FIRST_AXIS = ("CylindricalGrid1D", "SphericalGrid1D",
                     "CylindricalGrid2D", "PolarGrid2D",
                     "CylindricalGrid3D", "SphericalGrid3D")


def ndim_of(mesh):
    return len(mesh.dims)


def periodic_axes_allowed(name):
    nd = {"1": 1, "2": 2, "3": 3}[name[-2]]
    return tuple(k for k in range(nd)
                 if not (k == 0 and name in RADIAL_FIRST_AXIS))


def spacing(mesh, axis):
    cs = (mesh.cellsize._x, mesh.cellsize._y, mesh.cellsize._z)[axis]
    return float(cs[0]), float(cs[-1])


def metric(mesh, axis):
    """Factor multiplying the angular increment to obtain a length, shaped
    like a face of the given axis (interior part)."""
    t = type(mesh)
    r = np.asarray(mesh.cellcenters._x, dtype=float)
    if t is pf.PolarGrid2D and axis == 1:
        return r
    if t is pf.CylindricalGrid3D and axis == 1:
        return r[:, None]*np.ones((1, mesh.dims[2]))
    if t is pf.SphericalGrid3D and axis == 1:
        return r[:, None]*np.ones((1, mesh.dims[2]))
    if t is pf.SphericalGrid3D and axis == 2:
        th = np.asarray(mesh.cellcenters._y, dtype=float)
        return r[:, None]*np.sin(th)[None, :]
    return 1.0


def face_shape(mesh, axis):
    d = tuple(int(n) for n in mesh.dims)
    return tuple(n for k, n in enumerate(d) if k != axis)


# --------------------------------------------------------------------------
#  boundary conditions: random configurations, visible state, clones
# --------------------------------------------------------------------------

def set_side(face, kind, rng, shape, upper=True, signed=True):
    """kind in D (Dirichlet), N (Neumann), R (Robin, face-wise arrays).

    Robin sides use the physically meaningful sign combination (a and b of
    equal sign on upper sides, opposite sign on lower sides), so that the
    ghost-cell relation is never singular."""
    def arr(lo, hi):
        return rng.uniform(lo, hi, shape) if shape else float(rng.uniform(lo, hi))
    sgn = float(rng.choice([-1.0, 1.0])) if signed else 1.0
    if kind == "D":
        face.a = 0.0
        face.b = float(rng.uniform(0.5, 2.0))*sgn
        face.c = arr(-1.0, 1.0)
    elif kind == "N":
        face.a = float(rng.uniform(0.5, 2.0))*sgn
        face.b = 0.0
        face.c = arr(-1.0, 1.0)
    elif kind == "R":
        face.a = arr(0.05, 0.2)*(1.0 if upper else -1.0)
        face.b = arr(2.0, 3.0)
        face.c = arr(-1.0, 1.0)
        if signed and sgn < 0:
            face.a = -np.asarray(face.a)
            face.b = -np.asarray(face.b)
            face.c = -np.asarray(face.c)
    else:
        raise KeyError(kind)


def random_BC(mesh, name, rng, kinds=None, periodic=(), signed=True):
    BC = pf.BoundaryConditions(mesh)
    nd = ndim_of(mesh)
    for axis in range(nd):
        shp = face_shape(mesh, axis)
        for s, side in enumerate(SIDES[axis]):
            k = kinds[2*axis+s] if kinds else rng.choice(["D", "N", "R"])
            set_side(getattr(BC, side), k, rng, shp, upper=(s == 1),
                     signed=signed)
    for axis, which in periodic:
        # which: 0 lower flag only, 1 upper flag only, 2 both flags
        if which in (0, 2):
            getattr(BC, SIDES[axis][0]).periodic = True
        if which in (1, 2):
            getattr(BC, SIDES[axis][1]).periodic = True
    return BC


def clone_BC(BC):
    """New BoundaryConditions object with the same *visible* state."""
    new = pf.BoundaryConditions(BC.domain)
    for pair in SIDES:
        for side in pair:
            src, dst = getattr(BC, side), getattr(new, side)
            if np.asarray(src.a).size == 0:
                continue
            dst.a = np.array(src.a, dtype=float)
            dst.b = np.array(src.b, dtype=float)
            dst.c = np.array(src.c, dtype=float)
            if src.periodic:
                dst.periodic = True
    return new


def fresh_like(phi):
    """Freshly constructed variable from the visible state of phi."""
    return pf.CellVariable(phi.domain, np.array(phi.value, dtype=float),
                           clone_BC(phi.BCs))


def axis_is_periodic(BC, axis):
    lo, hi = SIDES[axis]
    return bool(getattr(BC, lo).periodic) or bool(getattr(BC, hi).periodic)


# --------------------------------------------------------------------------
#  C03: ghost layer / boundary rows satisfy a*dphi/dn + b*phi = c
# --------------------------------------------------------------------------

def interior_slices(nd):
    return [slice(1, -1)]*nd


def boundary_planes(full, axis):
    """(ghost_lo, inner_lo, inner_hi, ghost_hi), interior part of the face."""
    nd = full.ndim
    out = []
    for idx in (0, 1, -2, -1):
        sl = interior_slices(nd)
        sl[axis] = idx
        out.append(np.asarray(full[tuple(sl)], dtype=float))
    return out


def check_ghosts(phi, where):
    """Relation between the ghost layer and the configured BCs."""
    mesh, BC = phi.domain, phi.BCs
    full = np.asarray(phi._value)
    nd = ndim_of(mesh)
    ok(full.shape == tuple(int(n)+2 for n in mesh.dims),
       f"{where}: shape of full value array")
    ok(np.array_equal(np.asarray(phi.value), full[tuple(interior_slices(nd))]),
       f"{where}: .value is not the interior of the full array")
    for axis in range(nd):
        g_lo, i_lo, i_hi, g_hi = boundary_planes(full, axis)
        lo, hi = (getattr(BC, s) for s in SIDES[axis])
        if axis_is_periodic(BC, axis):
            ok(np.array_equal(g_lo, i_hi) and np.array_equal(g_hi, i_lo),
               f"{where}: periodic wrap on axis {axis} not exact")
            continue
        h_lo, h_hi = spacing(mesh, axis)
        m = metric(mesh, axis)
        shp = face_shape(mesh, axis)
        for face, gh, inn, h, sgn, nm in ((lo, g_lo, i_lo, h_lo, -1.0, "lower"),
                                          (hi, g_hi, i_hi, h_hi, +1.0, "upper")):
            a = np.broadcast_to(np.asarray(face.a, float).reshape(shp or ()), shp)
            b = np.broadcast_to(np.asarray(face.b, float).reshape(shp or ()), shp)
            c = np.broadcast_to(np.asarray(face.c, float).reshape(shp or ()), shp)
            dn = sgn*(gh - inn)/(h*m)          # derivative in +axis direction
            res = a*dn + b*0.5*(gh + inn) - c
            scale = (np.abs(a/(h*m)) + np.abs(b))*(np.abs(gh) + np.abs(inn))\
                + np.abs(c) + 1e-300
            ok(np.all(np.isfinite(gh)) and np.all(np.abs(res) <= RTOL*scale),
               f"{where}: Robin relation violated on {nm} side of axis {axis}: "
               f"{np.max(np.abs(res)/scale):.3e}")
            # closed form of the ghost value, written independently
            H = h*m
            ref = (c - inn*(0.5*b - sgn*a/H))/(0.5*b + sgn*a/H)
            ok(np.all(np.abs(gh - ref) <= 1e-10*(1.0 + np.abs(ref))),
               f"{where}: ghost value differs from closed form on {nm} side "
               f"of axis {axis}")
        # periodic flags off: ghost must NOT simply be the wrap (unless equal
        # by coincidence) -> nothing to assert, relation above is sufficient
    # corners/edges of the ghost layer carry no information; not asserted


def boundary_row_numbers(mesh, axis):
    G = np.asarray(mesh.cell_numbers())
    nd = G.ndim
    rows = []
    for idx in (0, -1):
        sl = interior_slices(nd)
        sl[axis] = idx
        rows.append(np.asarray(G[tuple(sl)]).ravel())
    return rows


def check_rows(phi, where):
    """The rows of boundaryConditionsTerm, applied to the reported values,
    vanish (non-periodic axes; periodic axes only when the first and last cell
    have the same size, which is when the two encodings coincide)."""
    mesh, BC = phi.domain, phi.BCs
    M, rhs = pf.boundaryConditionsTerm(BC)
    full = np.asarray(phi._value, dtype=float)
    n = full.size
    ok(M.shape == (n, n) and rhs.shape == (n,), f"{where}: term shapes")
    ok(np.all(np.isfinite(M.data)) and np.all(np.isfinite(rhs)),
       f"{where}: non-finite boundary term")
    r = M @ full.ravel() - rhs
    absM = abs(M) @ np.abs(full.ravel()) + np.abs(rhs) + 1e-300
    interior = np.asarray(mesh.cell_numbers())[tuple(interior_slices(full.ndim))]
    ok(M[interior.ravel(), :].nnz == 0 and not np.any(rhs[interior.ravel()]),
       f"{where}: boundary term touches interior rows")
    for axis in range(full.ndim):
        if axis_is_periodic(BC, axis):
            h_lo, h_hi = spacing(mesh, axis)
            if abs(h_lo - h_hi) > 1e-14*h_lo:
                continue
        for rows in boundary_row_numbers(mesh, axis):
            ok(np.all(np.abs(r[rows]) <= RTOL*absM[rows]),
               f"{where}: boundary rows of axis {axis} not satisfied "
               f"{np.max(np.abs(r[rows])/absM[rows]):.3e}")
            ok(np.all(np.diff(M[rows, :].indptr) >= 2),
               f"{where}: a boundary row of axis {axis} is (nearly) empty")
    check_row_entries(mesh, BC, M, rhs, where)
    return M, rhs


def check_row_entries(mesh, BC, M, rhs, where):
    """Entry-by-entry reference of the boundary rows (sign and scale of the
    rows are part of the observable output of boundaryConditionsTerm: the
    documented `scale_coeffs` feature of fixedGradient relies on it)."""
    A = M.toarray()
    G = np.asarray(mesh.cell_numbers())
    nd = G.ndim

    def plane(idx, axis):
        sl = interior_slices(nd)
        sl[axis] = idx
        return np.asarray(G[tuple(sl)])

    for axis in range(nd):
        g_lo, i_lo, i_hi, g_hi = (plane(k, axis) for k in (0, 1, -2, -1))
        shp = face_shape(mesh, axis)
        h_lo, h_hi = spacing(mesh, axis)
        m = metric(mesh, axis)
        lo, hi = (getattr(BC, sd) for sd in SIDES[axis])
        if axis_is_periodic(BC, axis):
            ratio = h_hi/h_lo
            want = ((g_hi, ((g_hi, 1.0), (i_hi, -1.0), (g_lo, ratio),
                            (i_lo, -ratio))),
                    (g_lo, ((g_lo, 1.0), (i_lo, 1.0), (i_hi, -1.0),
                            (g_hi, -1.0))))
            for rows, entries in want:
                rest = np.abs(A[rows.ravel(), :]).sum(axis=1)
                for cols, val in entries:
                    close(A[rows.ravel(), cols.ravel()],
                          np.full(rows.size, val), 1e-14,
                          f"{where}: periodic row entries, axis {axis}")
                    rest = rest - abs(val)
                ok(np.all(np.abs(rest) < 1e-12),
                   f"{where}: extra entries in periodic rows, axis {axis}")
                ok(not np.any(rhs[rows.ravel()]),
                   f"{where}: periodic rows have non-zero right-hand side")
            continue
        for face, gh, inn, h, upper in ((lo, g_lo, i_lo, h_lo, False),
                                        (hi, g_hi, i_hi, h_hi, True)):
            a = np.broadcast_to(np.asarray(face.a, float).reshape(shp or ()), shp)
            b = np.broadcast_to(np.asarray(face.b, float).reshape(shp or ()), shp)
            c = np.broadcast_to(np.asarray(face.c, float).reshape(shp or ()), shp)
            ahead = (b/2 + a/(h*m)).ravel()
            behind = (b/2 - a/(h*m)).ravel()
            gh, inn = gh.ravel(), inn.ravel()
            if upper:
                w_gh, w_in, w_rhs = ahead, behind, c.ravel()
            else:
                w_gh, w_in, w_rhs = -behind, -ahead, -c.ravel()
            tol = 1e-13
            close(A[gh, gh], w_gh, tol, f"{where}: ghost coefficient, axis {axis}")
            close(A[gh, inn], w_in, tol, f"{where}: inner coefficient, axis {axis}")
            close(rhs[gh], w_rhs, tol, f"{where}: right-hand side, axis {axis}")
            rest = np.abs(A[gh, :]).sum(axis=1) - np.abs(A[gh, gh])\
                - np.abs(A[gh, inn])
            ok(np.all(np.abs(rest) <= 1e-12*(1 + np.abs(A[gh, gh]))),
               f"{where}: extra entries in boundary rows, axis {axis}")


def check_profile(phi, where):
    out = phi.plotprofile()
    prof = np.asarray(out[-1], dtype=float)
    full = np.asarray(phi._value, dtype=float)
    for axis in range(full.ndim):
        g_lo, i_lo, i_hi, g_hi = boundary_planes(full, axis)
        sl = interior_slices(full.ndim)
        sl[axis] = 0
        close(prof[tuple(sl)], 0.5*(g_lo + i_lo), 1e-13, f"{where}: profile lo")
        sl[axis] = -1
        close(prof[tuple(sl)], 0.5*(g_hi + i_hi), 1e-13, f"{where}: profile hi")
        BC = phi.BCs
        if not axis_is_periodic(BC, axis):
            for face, idx in ((getattr(BC, SIDES[axis][0]), 0),
                              (getattr(BC, SIDES[axis][1]), -1)):
                a = np.asarray(face.a, float)
                if a.size and not np.any(a):           # Dirichlet: value = c/b
                    sl[axis] = idx
                    shp = face_shape(phi.domain, axis)
                    want = (np.asarray(face.c, float)/np.asarray(face.b, float))
                    want = np.broadcast_to(want.reshape(shp or ()), shp)
                    close(prof[tuple(sl)], want, 1e-9, f"{where}: Dirichlet value")


def check_C03(phi, where):
    check_ghosts(phi, where)
    check_rows(phi, where)
    check_profile(phi, where)


# --------------------------------------------------------------------------
#  solves
# --------------------------------------------------------------------------

def eqn_steady(mesh, rng_state=0):
    """-div(D grad phi) + beta phi = gamma  (always non-singular)."""
    D = pf.FaceVariable(mesh, 0.7)
    beta = pf.CellVariable(mesh, 1.3)
    rs = np.random.default_rng(1000 + rng_state)
    gamma = pf.CellVariable(mesh, rs.uniform(0.5, 1.5, tuple(mesh.dims)))
    return [-pf.diffusionTerm(D), pf.linearSourceTerm(beta),
            pf.constantSourceTerm(gamma)]


def solve_steady(phi, k=0, solver=None):
    return pf.solvePDE(phi, eqn_steady(phi.domain, k), externalsolver=solver)


def solve_transient(phi, dt=0.05):
    D = pf.FaceVariable(phi.domain, 0.4)
    return pf.solvePDE(phi, [pf.transientTerm(phi, dt, 1.0),
                             -pf.diffusionTerm(D)])


def solve_explicit(phi, dt=1e-3):
    g = pf.CellVariable(phi.domain,
                        np.random.default_rng(7).uniform(
                            -1, 1, tuple(phi.domain.dims)))
    rhs = pf.constantSourceTerm(g) - pf.constantSourceTerm(phi*0.5)
    return pf.solveExplicitPDE(phi, dt, rhs)


def compare_with_fresh(phi, where, final=solve_steady):
    """The next solve on phi equals the same solve on a fresh variable."""
    ref = fresh_like(phi)
    out = final(phi)
    out_ref = final(ref)
    close(out.value, out_ref.value, HTOL, f"{where}: history != fresh (.value)")
    close(out._value, out_ref._value, HTOL, f"{where}: history != fresh (ghosts)")
    check_C03(out, where + " [after final solve]")
    return out


# --------------------------------------------------------------------------
#  part 1: configurations (C03)
# --------------------------------------------------------------------------

def periodic_patterns(name):
    axes = periodic_axes_allowed(name)
    pats = [()]
    for ax in axes:
        for which in (0, 1, 2):
            pats.append(((ax, which),))
    if len(axes) >= 2:
        pats.append(((axes[0], 2), (axes[1], 0)))
        pats.append(tuple((ax, 1) for ax in axes))
    return pats


def part_configurations(name, rng, n_random):
    nd = int(name[-2])
    kind_sets = [tuple(k) for k in itertools.product("DNR", repeat=2*nd)]
    if len(kind_sets) > 27:
        pick = rng.choice(len(kind_sets), size=27, replace=False)
        kind_sets = [kind_sets[i] for i in pick]
    jobs = [(k, ()) for k in kind_sets]
    pats = periodic_patterns(name)
    for _ in range(n_random):
        jobs.append((None, pats[rng.integers(len(pats))]))
    for p in pats[1:]:
        jobs.append((None, p))
    for kinds, per in jobs:
        uni = tuple(ax for ax, _ in per)
        mesh = make_mesh(name, rng, uniform_axes=uni)
        BC = random_BC(mesh, name, rng, kinds, per)
        vals = rng.uniform(-1.0, 1.0, tuple(mesh.dims))
        tag = f"{name} kinds={kinds} periodic={per}"
        phi = pf.CellVariable(mesh, vals, BC)
        check_C03(phi, tag + " [construction]")
        phi.value = rng.uniform(-1.0, 1.0, tuple(mesh.dims))
        phi.apply_BCs()
        check_C03(phi, tag + " [apply_BCs]")
        solve_steady(phi)
        check_C03(phi, tag + " [solvePDE]")
        # solved interior consistent with reported ghosts: re-applying the
        # boundary conditions to the solved interior changes nothing
        before = np.array(phi._value)
        phi.apply_BCs()
        close(phi._value, before, 1e-13, tag + " [apply_BCs idempotent]")
        psi = solve_explicit(phi)
        ok(psi is not phi, tag + ": explicit solver must return a new variable")
        check_C03(psi, tag + " [solveExplicitPDE]")
        solve_transient(psi)
        check_C03(psi, tag + " [explicit result fed to solvePDE]")
        # scale invariance of (a, b, c), per side, either sign, face-wise
        ref = fresh_like(phi)
        scaled = fresh_like(phi)
        for axis in range(nd):
            shp = face_shape(mesh, axis)
            for side in SIDES[axis]:
                f = getattr(scaled.BCs, side)
                fac = rng.uniform(0.5, 3.0, shp)*rng.choice([-1.0, 1.0], shp)\
                    if shp else float(rng.uniform(0.5, 3.0)*rng.choice([-1, 1]))
                fac = np.asarray(fac).reshape(np.asarray(f.a).shape)
                f.a = np.asarray(f.a)*fac
                f.b = np.asarray(f.b)*fac
                f.c = np.asarray(f.c)*np.asarray(fac).reshape(np.asarray(f.c).shape)
        scaled.apply_BCs()
        ref.apply_BCs()
        close(scaled._value, ref._value, 1e-9, tag + " [scaled ghosts]")
        solve_steady(scaled, 3)
        solve_steady(ref, 3)
        close(scaled._value, ref._value, 1e-8, tag + " [scaled solution]")


# --------------------------------------------------------------------------
#  part 2: histories (C09)
# --------------------------------------------------------------------------

class History:
    def __init__(self, name, rng, defaulted_BCs):
        self.name, self.rng = name, rng
        self.per_axes = periodic_axes_allowed(name)
        # periodic axes are uniform so that toggling is always meaningful
        self.mesh = make_mesh(name, rng, uniform_axes=self.per_axes)
        self.nd = ndim_of(self.mesh)
        self.dims = tuple(int(n) for n in self.mesh.dims)
        v = rng.uniform(-1, 1, self.dims)
        if defaulted_BCs:
            self.phi = pf.CellVariable(self.mesh, v)
        else:
            self.phi = pf.CellVariable(self.mesh, v,
                                       random_BC(self.mesh, name, rng,
                                                 signed=False))
        self.others = []      # variables sharing phi's BC object, or copies
        self.views = []       # retained views of coefficient arrays
        self.log = []

    def rand_side(self):
        axis = int(self.rng.integers(self.nd))
        side = SIDES[axis][int(self.rng.integers(2))]
        return axis, side, getattr(self.phi.BCs, side)

    # --- edit alphabet ----------------------------------------------------
    def op_assign_coeff(self):
        axis, side, f = self.rand_side()
        shp = face_shape(self.mesh, axis)
        if self.rng.random() < 0.5:
            f.c = self.rng.uniform(-1, 1, shp) if shp and self.rng.random() < .5\
                else float(self.rng.uniform(-1, 1))
        else:
            upper = side in ("right", "top", "front")
            f.b = float(self.rng.uniform(2.0, 3.0))
            f.a = self.rng.uniform(0.05, 0.2, shp)*(1.0 if upper else -1.0)\
                if shp else float(self.rng.uniform(0.05, 0.2))*(1. if upper else -1.)

    def op_slice_coeff(self):
        axis, side, f = self.rand_side()
        arr = f.c
        idx = tuple(int(self.rng.integers(n)) for n in np.asarray(arr).shape)
        arr[idx] = float(self.rng.uniform(-1, 1))

    def op_retain_view(self):
        axis, side, f = self.rand_side()
        self.views.append(("c", f.c[...]))
        self.views.append(("b", f.b[...]))

    def op_write_view(self):
        if not self.views:
            self.op_retain_view()
        kind, v = self.views[int(self.rng.integers(len(self.views)))]
        idx = tuple(int(self.rng.integers(n)) for n in v.shape)
        cur = float(np.asarray(v)[idx])
        if kind == "c":
            v[idx] = cur + float(self.rng.uniform(0.1, 0.3))
        else:
            v[idx] = cur*1.25        # keeps the sign: relation stays regular

    def op_utility(self):
        axis, side, f = self.rand_side()
        r = self.rng.integers(4)
        if r == 0:
            f.fixedValue(float(self.rng.uniform(-1, 1)))
        elif r == 1:
            f.fixedGradient(float(self.rng.uniform(-1, 1)),
                            scale_coeffs=float(self.rng.uniform(0.5, 4.0)))
        elif r == 2:
            f.newtonCooling(0.1, 2.5, float(self.rng.uniform(-1, 1)),
                            reverse_direction=bool(side in
                                                   ("left", "bottom", "back")))
        else:
            f.defaultNoFlux()

    def op_toggle_periodic(self):
        if not self.per_axes:
            return self.op_utility()
        axis = int(self.rng.choice(self.per_axes))
        side = SIDES[axis][int(self.rng.integers(2))]
        f = getattr(self.phi.BCs, side)
        f.periodic = not f.periodic

    def op_assign_value(self):
        self.phi.value = self.rng.uniform(-1, 1, self.dims)

    def op_slice_value(self):
        idx = tuple(int(self.rng.integers(n)) for n in self.dims)
        self.phi.value[idx] = float(self.rng.uniform(-1, 1))

    def op_int_value(self):
        self.phi.value = self.rng.integers(-3, 4, self.dims)

    def op_update_value(self):
        src = pf.CellVariable(self.mesh, self.rng.uniform(-1, 1, self.dims),
                              clone_BC(self.phi.BCs))
        self.phi.update_value(src)

    def op_copy(self):
        old = self.phi
        self.phi = old.copy()
        self.others.append(("copy-origin", old))
        # the original must not be affected by edits of the copy
        self.views = []

    def op_arith(self):
        old = self.phi
        self.phi = 0.5*old + 0.25
        self.others.append(("arith-origin", old))
        self.views = []

    def op_share_BC(self):
        other = pf.CellVariable(self.mesh, self.rng.uniform(-1, 1, self.dims),
                                self.phi.BCs)
        self.others.append(("shared", other))

    def op_solve_other(self):
        shared = [o for tag, o in self.others if tag == "shared"
                  and o.BCs is self.phi.BCs]
        if not shared:
            return self.op_share_BC()
        o = shared[int(self.rng.integers(len(shared)))]
        if self.rng.random() < 0.5:
            solve_steady(o, 5)
        else:
            o.apply_BCs()
        check_C03(o, self.where() + " [shared variable]")

    def op_apply(self):
        self.phi.apply_BCs()
        check_C03(self.phi, self.where() + " [apply_BCs]")

    def op_solve(self):
        solve_steady(self.phi, 1)
        check_C03(self.phi, self.where() + " [solvePDE]")

    def op_transient(self):
        solve_transient(self.phi)
        check_C03(self.phi, self.where() + " [solvePDE transient]")

    def op_explicit(self):
        old = self.phi
        self.phi = solve_explicit(old)
        self.others.append(("shared", old))      # result shares the BC object
        check_C03(self.phi, self.where() + " [solveExplicitPDE]")

    def op_failing_solver(self):
        def bad(M, rhs):
            raise RuntimeError("external solver failed")
        try:
            solve_steady(self.phi, 2, solver=bad)
        except RuntimeError:
            pass
        else:
            raise AssertionError("failing solver did not propagate")

    EDITS = ("assign_coeff", "slice_coeff", "retain_view", "write_view",
             "utility", "toggle_periodic", "assign_value", "slice_value",
             "int_value", "update_value", "copy", "arith", "share_BC",
             "solve_other", "apply", "solve", "transient", "explicit",
             "failing_solver")

    def where(self):
        return f"{self.name} history {'>'.join(self.log)}"

    def run(self, length):
        for _ in range(length):
            op = str(self.rng.choice(self.EDITS))
            self.log.append(op)
            getattr(self, "op_" + op)()
        # independence of copies / arithmetic results from their origins
        snap = [(tag, o, np.array(o.value), clone_BC(o.BCs))
                for tag, o in self.others if tag != "shared"]
        self.phi = compare_with_fresh(
            self.phi, self.where(),
            final=(solve_steady if self.rng.random() < 0.6 else solve_transient))
        for tag, o, val, bc in snap:
            if o.BCs is self.phi.BCs:
                continue
            ok(np.array_equal(np.asarray(o.value), val),
               self.where() + f": {tag} changed by later work on derived var")
        for tag, o in self.others:
            compare_with_fresh(o, self.where() + f" [{tag}]")


def part_histories(name, rng, n_hist, length):
    for i in range(n_hist):
        History(name, rng, defaulted_BCs=(i % 2 == 0)).run(length)
    # bounded-exhaustive short histories over a reduced alphabet
    small = ("assign_coeff", "write_view", "toggle_periodic", "slice_value",
             "update_value", "share_BC", "solve_other", "apply", "solve",
             "explicit", "failing_solver", "copy")
    for ops in itertools.product(small, repeat=2):
        h = History(name, rng, defaulted_BCs=False)
        for op in ops:
            h.log.append(op)
            getattr(h, "op_" + op)()
        h.phi = compare_with_fresh(h.phi, h.where())
        for tag, o in h.others:
            compare_with_fresh(o, h.where() + f" [{tag}]")


# --------------------------------------------------------------------------
#  part 3: directed scenarios
# --------------------------------------------------------------------------

def part_directed(name, rng):
    per_axes = periodic_axes_allowed(name)
    mesh = make_mesh(name, rng, uniform_axes=per_axes)
    dims = tuple(int(n) for n in mesh.dims)
    nd = len(dims)

    # (a) integer interior values and integer coefficient arrays
    ivals = rng.integers(-4, 5, dims)
    BCi = pf.BoundaryConditions(mesh)
    BCf = pf.BoundaryConditions(mesh)
    for axis in range(nd):
        shp = face_shape(mesh, axis)
        for side in SIDES[axis]:
            ci = rng.integers(-3, 4, shp) if shp else int(rng.integers(-3, 4))
            bi = int(rng.integers(1, 4))
            for B, conv in ((BCi, lambda x: x), (BCf, lambda x: np.asarray(x, float))):
                f = getattr(B, side)
                f.a = conv(1) if side in ("right", "top", "front") else conv(-1)
                f.b = conv(bi)
                f.c = conv(ci)
    pi_ = pf.CellVariable(mesh, ivals, BCi)
    pf_ = pf.CellVariable(mesh, ivals.astype(float), BCf)
    check_C03(pi_, f"{name} integer input [construction]")
    close(pi_._value, pf_._value, 1e-14, f"{name}: integer vs float input")
    ok(np.asarray(pi_._value).dtype == np.float64, f"{name}: dtype of ghosts")
    solve_steady(pi_)
    solve_steady(pf_)
    close(pi_._value, pf_._value, 1e-13, f"{name}: integer vs float solve")

    # (b) periodic flag on one side only == on both sides; other axes Robin
    for axis in per_axes:
        res = []
        base = random_BC(mesh, name, rng)
        vals = rng.uniform(-1, 1, dims)
        for which in (0, 1, 2):
            BC = clone_BC(base)
            if which in (0, 2):
                getattr(BC, SIDES[axis][0]).periodic = True
            if which in (1, 2):
                getattr(BC, SIDES[axis][1]).periodic = True
            phi = pf.CellVariable(mesh, vals, BC)
            check_C03(phi, f"{name} one-sided periodic flag {which} axis {axis}")
            solve_steady(phi)
            check_C03(phi, f"{name} one-sided periodic solve {which} axis {axis}")
            res.append(np.array(phi._value))
        close(res[0], res[2], 1e-13, f"{name}: lower-only periodic != both")
        close(res[1], res[2], 1e-13, f"{name}: upper-only periodic != both")
        # and switching it off again restores the Robin ghost values
        phi = pf.CellVariable(mesh, vals, clone_BC(base))
        want = np.array(phi._value)
        getattr(phi.BCs, SIDES[axis][0]).periodic = True
        phi.apply_BCs()
        getattr(phi.BCs, SIDES[axis][0]).periodic = False
        phi.apply_BCs()
        close(phi._value, want, 1e-14, f"{name}: periodic off again")

    # (c) radial periodic is refused with ValueError, and the variable is
    #     usable after the flag is withdrawn
    if name in RADIAL_FIRST_AXIS:
        BC = random_BC(mesh, name, rng)
        phi = pf.CellVariable(mesh, rng.uniform(-1, 1, dims), BC)
        phi.BCs.left.periodic = True
        for call in (phi.apply_BCs, lambda: solve_steady(phi),
                     lambda: pf.boundaryConditionsTerm(phi.BCs),
                     lambda: pf.CellVariable(mesh, 1.0, phi.BCs)):
            try:
                call()
            except ValueError:
                pass
            else:
                raise AssertionError(f"{name}: radial periodic not refused")
        phi.BCs.left.periodic = False
        compare_with_fresh(phi, f"{name}: retry after refused radial periodic")
        # without pre-computed term the ghost layer simply wraps
        BC2 = random_BC(mesh, name, rng)
        BC2.right.periodic = True
        q = pf.CellVariable(mesh, rng.uniform(-1, 1, dims), BC2,
                            BCsTerm_precalc=False)
        check_ghosts(q, f"{name}: radial wrap without precalc")

    # (d) one BC object shared by two variables created at different times,
    #     edited through a retained view, both solved
    BC = random_BC(mesh, name, rng)
    u = pf.CellVariable(mesh, rng.uniform(-1, 1, dims), BC)
    solve_steady(u)
    w = pf.CellVariable(mesh, rng.uniform(-1, 1, dims), BC)
    view = BC.right.c[...]
    solve_steady(w, 4)
    view[...] = np.asarray(view) + 0.75
    solve_transient(u)
    check_C03(u, f"{name}: shared BC, u after view edit")
    compare_with_fresh(w, f"{name}: shared BC, w after u consumed the edit")
    compare_with_fresh(u, f"{name}: shared BC, u")

    # (e) failing external solver, then retry; failing solver must not leave
    #     a half-updated variable behind
    BC = random_BC(mesh, name, rng)
    phi = pf.CellVariable(mesh, rng.uniform(-1, 1, dims), BC)
    phi.BCs.left.c = 0.3
    before = np.array(phi.value)

    def bad(M, rhs):
        raise MemoryError("allocation failed in external solver")
    try:
        solve_steady(phi, solver=bad)
    except MemoryError:
        pass
    else:
        raise AssertionError("MemoryError swallowed")
    ok(np.array_equal(np.asarray(phi.value), before),
       f"{name}: interior changed by a failed solve")
    check_C03(phi, f"{name}: after failed solve")
    calls = []

    def recording(M, rhs):
        from scipy.sparse.linalg import spsolve
        calls.append(M.shape)
        return spsolve(M, rhs)
    ref = fresh_like(phi)
    solve_steady(phi, solver=recording)
    solve_steady(ref)
    ok(len(calls) == 1, f"{name}: external solver not used exactly once")
    close(phi._value, ref._value, HTOL, f"{name}: retry after failed solver")

    # (f) copy / deepcopy independence incl. ghost layer
    import copy as _copy
    BC = random_BC(mesh, name, rng)
    phi = pf.CellVariable(mesh, rng.uniform(-1, 1, dims), BC)
    solve_steady(phi)
    for dup in (phi.copy(), _copy.deepcopy(phi)):
        ok(dup.BCs is not phi.BCs, f"{name}: copy shares the BC object")
        close(dup._value, phi._value, 0.0, f"{name}: copy differs from original")
        keep = np.array(phi._value)
        dup.BCs.left.c = 0.9
        dup.value = rng.uniform(-1, 1, dims)
        solve_transient(dup)
        check_C03(dup, f"{name}: edited copy")
        ok(np.array_equal(np.asarray(phi._value), keep),
           f"{name}: original changed through its copy")
        compare_with_fresh(dup, f"{name}: copy history")
    compare_with_fresh(phi, f"{name}: original after copies were edited")

    # (g) boundaryConditionsTerm is a pure function of the BC state
    BC = random_BC(mesh, name, rng)
    M1, r1 = pf.boundaryConditionsTerm(BC)
    state = [np.array(getattr(getattr(BC, s), k)) for p in SIDES for s in p
             for k in "abc"]
    M2, r2 = pf.boundaryConditionsTerm(BC)
    ok((M1 != M2).nnz == 0 and np.array_equal(r1, r2) and M1.nnz == M2.nnz,
       f"{name}: boundaryConditionsTerm not repeatable")
    state2 = [np.array(getattr(getattr(BC, s), k)) for p in SIDES for s in p
              for k in "abc"]
    ok(all(np.array_equal(x, y) for x, y in zip(state, state2)),
       f"{name}: boundaryConditionsTerm modified its argument")
    ok(M1.shape[0] == int(np.prod(np.asarray(mesh.dims) + 2)), "shape")
    ok(M1.format == "csr" and r1.dtype == np.float64 and M1.dtype == np.float64,
       f"{name}: type of the boundary term changed")


def part_scale_coeffs(name, rng):
    """fixedGradient(..., scale_coeffs=k): same gradient, matrix rows of that
    side multiplied by k (documented), same solution."""
    mesh = make_mesh(name, rng)
    nd = ndim_of(mesh)
    k = 8.0
    BCs = []
    for scale in (1.0, k):
        B = pf.BoundaryConditions(mesh)
        for axis in range(nd):
            for side in SIDES[axis]:
                getattr(B, side).fixedGradient(0.3, scale_coeffs=scale)
        B.left.fixedValue(0.2)
        BCs.append(B)
    (M1, r1), (Mk, rk) = (pf.boundaryConditionsTerm(B) for B in BCs)
    A1, Ak = M1.toarray(), Mk.toarray()
    for axis in range(nd):
        for n, rows in enumerate(boundary_row_numbers(mesh, axis)):
            f = 1.0 if (axis == 0 and n == 0) else k
            close(Ak[rows, :], f*A1[rows, :], 1e-14, f"{name}: scaled rows")
            close(rk[rows], f*r1[rows], 1e-14, f"{name}: scaled rhs")
    v = rng.uniform(-1, 1, tuple(mesh.dims))
    u1 = pf.CellVariable(mesh, v, BCs[0])
    uk = pf.CellVariable(mesh, v, BCs[1])
    close(uk._value, u1._value, 1e-12, f"{name}: scale_coeffs changes ghosts")
    solve_steady(u1)
    solve_steady(uk)
    close(uk._value, u1._value, 1e-10, f"{name}: scale_coeffs changes solution")


def nnz_expectations():
    """Stored-entry counts of periodic boundary matrices (as in the test
    suite) plus a few more, to pin the sparsity structure."""
    msh = pf.Grid3D(4, 4, 4, 1.0, 1.0, 1.0)
    BC = pf.BoundaryConditions(msh)
    BC.left.periodic = True
    BC.right.periodic = True
    ok(pf.boundaryConditionsTerm(BC)[0].nnz == 312, "nnz Grid3D periodic x")
    msh = pf.Grid2D(4, 5, 1.0, 1.0)
    BC = pf.BoundaryConditions(msh)
    ok(pf.boundaryConditionsTerm(BC)[0].nnz == 4 + 2*2*(4+5), "nnz Grid2D")
    BC.top.periodic = True
    ok(pf.boundaryConditionsTerm(BC)[0].nnz == 4 + 2*2*5 + 4*2*4,
       "nnz Grid2D periodic y")
    msh = pf.Grid1D(5, 1.0)
    BC = pf.BoundaryConditions(msh)
    ok(pf.boundaryConditionsTerm(BC)[0].nnz == 4, "nnz Grid1D")
    BC.left.periodic = True
    ok(pf.boundaryConditionsTerm(BC)[0].nnz == 8, "nnz Grid1D periodic")


def main():
    rng = np.random.default_rng(SEED)
    nnz_expectations()
    for name in ALL_GRIDS:
        focus = name in FOCUS
        part_configurations(name, rng, n_random=12 if focus else 4)
        part_directed(name, rng)
        part_scale_coeffs(name, rng)
        if focus or name[-2] != "3":
            part_histories(name, rng, n_hist=14 if focus else 4,
                           length=8 if focus else 6)
        else:
            part_histories_light(name, rng)
        print(f"  {name:<20s} ok   ({N_CHECKS[0]} assertions so far)")
    print(f"check.py: all {N_CHECKS[0]} assertions hold")
    return 0


def part_histories_light(name, rng):
    for i in range(3):
        History(name, rng, defaulted_BCs=(i % 2 == 0)).run(6)


if __name__ == "__main__":
    sys.exit(main())
