import copy
import operator
import sys

import numpy as np
import pyfvtool as pf

# --------------------------------------------------------------------------
# shared scaffolding (meshes, boundary conditions, snapshots)
# --------------------------------------------------------------------------

FACES = ('left', 'right', 'bottom', 'top', 'back', 'front')
NCHECK = [0]


def ok(cond, msg):
    NCHECK[0] += 1
    if not cond:
        raise AssertionError(msg)


def same(a, b):
    a = np.asarray(a)
    b = np.asarray(b)
    return a.shape == b.shape and np.array_equal(a, b, equal_nan=True)


def close(a, b, rtol=1e-9, atol=1e-11):
    a = np.asarray(a, dtype=float)
    b = np.asarray(b, dtype=float)
    return a.shape == b.shape and np.allclose(a, b, rtol=rtol, atol=atol)


def all_meshes():
    xf = np.array([0.0, 0.1, 0.25, 0.5, 0.7, 1.0])
    rf = np.array([0.2, 0.3, 0.55, 0.8, 1.3])
    yf = np.array([0.0, 0.3, 0.5, 1.2])
    zf = np.array([0.0, 0.4, 1.0])
    tf = np.linspace(0.0, 2*np.pi, 5)
    return [
        ('Grid1D', pf.Grid1D(6, 1.5)),
        ('Grid1D-nonuniform', pf.Grid1D(xf)),
        ('CylindricalGrid1D', pf.CylindricalGrid1D(rf)),
        ('SphericalGrid1D', pf.SphericalGrid1D(5, 2.0)),
        ('Grid2D', pf.Grid2D(xf, yf)),
        ('CylindricalGrid2D', pf.CylindricalGrid2D(rf, yf)),
        ('PolarGrid2D', pf.PolarGrid2D(rf, tf)),
        ('Grid3D', pf.Grid3D(xf[:4], yf, zf)),
        ('CylindricalGrid3D', pf.CylindricalGrid3D(3, 4, 2, 1.0, 2*np.pi, 1.0)),
        ('SphericalGrid3D', pf.SphericalGrid3D(3, 4, 3, 1.0, np.pi, 2*np.pi)),
    ]


def used_faces(mesh):
    return FACES[:2*len(mesh.dims)]


def random_BCs(mesh, rng, kind='robin'):
    """kind: 'robin' (all faces a,b,c random), 'dirichlet', 'default',
    'periodic-one-side' (periodic flag on the left face only; other
    directions Robin)."""
    bc = pf.BoundaryConditions(mesh)
    if kind == 'default':
        return bc
    for i, name in enumerate(used_faces(mesh)):
        face = getattr(bc, name)
        shp = face.a.shape
        if kind == 'dirichlet':
            face.a[:] = 0.0
            face.b[:] = 1.0
            face.c[:] = rng.uniform(0.5, 2.0, size=face.c.shape)
        else:
            # keep a/dx and b/2 well separated: a small, b large, one sign
            face.a[:] = rng.uniform(0.01, 0.03, size=shp)
            face.b[:] = rng.uniform(1.0, 2.0, size=face.b.shape)
            face.c[:] = rng.uniform(-1.0, 1.0, size=face.c.shape)
    if kind == 'periodic-one-side':
        # radial directions cannot be periodic
        if type(mesh) in (pf.Grid1D, pf.Grid2D, pf.Grid3D):
            bc.left.periodic = True
        elif len(mesh.dims) > 1:
            bc.bottom.periodic = True
    return bc


def snap_bc(bc):
    out = {}
    for name in FACES:
        f = getattr(bc, name)
        out[name] = (np.array(f.a), np.array(f.b), np.array(f.c),
                     bool(f.periodic))
    return out


def bc_equal(s1, s2):
    for name in FACES:
        a1, b1, c1, p1 = s1[name]
        a2, b2, c2, p2 = s2[name]
        if not (same(a1, a2) and same(b1, b2) and same(c1, c2) and p1 == p2):
            return False
    return True


def snap_cell(v):
    return (np.array(v._value), snap_bc(v.BCs))


def cell_equal(s1, s2):
    return same(s1[0], s2[0]) and bc_equal(s1[1], s2[1])


def snap_face(f):
    return tuple(np.array(c) for c in (f._xvalue, f._yvalue, f._zvalue))


def face_equal(s1, s2):
    return all(same(a, b) for a, b in zip(s1, s2))


def rand_cell(mesh, rng, kind='robin', lo=0.5, hi=2.0, integer=False):
    vals = rng.uniform(lo, hi, size=tuple(mesh.dims))
    if integer:
        vals = rng.integers(1, 5, size=tuple(mesh.dims))
    return pf.CellVariable(mesh, vals, random_BCs(mesh, rng, kind))


def fresh_like(v):
    """A variable rebuilt from scratch with the public constructor from the
    interior values and a deep copy of the boundary conditions of v."""
    return pf.CellVariable(v.domain, np.array(v.value),
                           copy.deepcopy(v.BCs))


def no_shared_memory_cells(u, v):
    if np.shares_memory(u._value, v._value):
        return False
    if u.BCs is v.BCs:
        return False
    for name in FACES:
        fu, fv = getattr(u.BCs, name), getattr(v.BCs, name)
        if fu is fv:
            return False
        for k in 'abc':
            if np.shares_memory(getattr(fu, k), getattr(fv, k)):
                return False
    return True


def independent_cells(res, operands, rng):
    """Cross-modification probes: changing res (values and BCs) leaves the
    operands alone and the other way round."""
    before_ops = [snap_cell(o) for o in operands]
    res.value[...] = res.value + 1.25
    res.BCs.left.a[:] = res.BCs.left.a + 0.5
    res.BCs.right.c[:] = 7.0
    res.BCs.left.periodic = not res.BCs.left.periodic
    res.BCs.left.periodic = not res.BCs.left.periodic
    for o, b in zip(operands, before_ops):
        if not cell_equal(snap_cell(o), b):
            return False
    before_res = snap_cell(res)
    for o in operands:
        o.value[...] = o.value * 0.5 + 3.0
        o.BCs.left.b[:] = o.BCs.left.b + 0.25
        o.BCs.right.a[:] = 0.125
    return cell_equal(snap_cell(res), before_res)


def ghosts_consistent(v):
    """Ghost cells of v agree with its interior values and its BCs."""
    ref = fresh_like(v)
    return same(ref._value, v._value)


def steady_terms(mesh, D, beta, src):
    """-div(D grad phi) + beta phi = src ; returns term list for solvePDE"""
    return [-pf.diffusionTerm(D), pf.linearSourceTerm(beta),
            pf.constantSourceTerm(src)]


class FailingSolver:
    """external solver that fails the first n calls"""
    def __init__(self, nfail=1):
        self.nfail = nfail
        self.calls = 0

    def __call__(self, M, RHS):
        from scipy.sparse.linalg import spsolve
        self.calls += 1
        if self.calls <= self.nfail:
            raise RuntimeError('external solver failed')
        return spsolve(M, RHS)

# --------------------------------------------------------------------------
# refactoring 2: FaceVariable reflected operators through one helper
# --------------------------------------------------------------------------

def rand_face(mesh, rng, lo=0.5, hi=2.0, integer=False):
    f = pf.FaceVariable(mesh, 1.0)
    comps = []
    for c in snap_face(f):
        if integer:
            comps.append(rng.integers(1, 4, size=c.shape))
        else:
            comps.append(rng.uniform(lo, hi, size=c.shape))
    return pf.FaceVariable(mesh, *comps)


def comps(x):
    return (x._xvalue, x._yvalue, x._zvalue)


def face_matches(res, mesh, expect, tag):
    ok(type(res) is pf.FaceVariable, tag + ' result type')
    ok(res.domain is mesh, tag + ' domain')
    for got, exp in zip(comps(res), expect):
        ok(isinstance(got, np.ndarray), tag + ' component type')
        ok(got.dtype == np.asarray(exp).dtype, tag + ' dtype')
        ok(same(got, exp), tag + ' values')


def faces_unshared(res, others):
    for o in others:
        for a in comps(res):
            for b in comps(o):
                if a.size and b.size and np.shares_memory(a, b):
                    return False
    return True


def independent_faces(res, operands):
    before = [snap_face(o) for o in operands]
    for c in comps(res):
        c[...] = c + 1.5
    for o, b in zip(operands, before):
        if not face_equal(snap_face(o), b):
            return False
    rb = snap_face(res)
    for o in operands:
        for c in comps(o):
            c[...] = c * 0.5 - 4.0
    return face_equal(snap_face(res), rb)


REFLECTED = [
    ('radd', lambda s, f: s + f, lambda s, a: s + a, '__radd__'),
    ('rsub', lambda s, f: s - f, lambda s, a: s - a, '__rsub__'),
    ('rmul', lambda s, f: s * f, lambda s, a: s * a, '__rmul__'),
    ('rtruediv', lambda s, f: s / f, lambda s, a: s / a, '__rtruediv__'),
    ('rpow', lambda s, f: s ** f, lambda s, a: s ** a, '__rpow__'),
]
DIRECT = [
    ('add', operator.add), ('sub', operator.sub), ('mul', operator.mul),
    ('truediv', operator.truediv), ('pow', operator.pow),
    ('gt', operator.gt), ('ge', operator.ge), ('lt', operator.lt),
    ('le', operator.le),
]


def check_face_algebra(name, mesh, rng):
    for integer in (False, True):
        f = rand_face(mesh, rng, integer=integer)
        g = rand_face(mesh, rng)
        fb, gb = snap_face(f), snap_face(g)
        # scalars of several kinds on the left, incl. sequences and arrays
        lefts = [2, 2.5, -1.5, np.float64(1.75), np.int64(3), True,
                 np.array(2.25), np.array([1.5]), [3.0]]
        for lbl, expr, ref, dunder in REFLECTED:
            for s in lefts:
                tag = f'{name}/{lbl}/{type(s).__name__}/int={integer}'
                # via the reflected special method (what `s op f` resolves to
                # for plain Python scalars and lists)
                sa = np.asarray(s) if isinstance(s, list) else s
                with np.errstate(all='ignore'):
                    res = getattr(f, dunder)(s)
                    expect = [ref(sa, c) for c in fb]
                face_matches(res, mesh, expect, tag)
                ok(face_equal(snap_face(f), fb), tag + ' operand changed')
                ok(faces_unshared(res, [f]), tag + ' shares memory')
                if type(s) in (int, float, bool, list):
                    with np.errstate(all='ignore'):
                        res2 = expr(s, f)
                    face_matches(res2, mesh, expect, tag + ' (infix)')
            # FaceVariable handed to the reflected method directly
            res = getattr(f, dunder)(g)
            expect = [ref(cg, cf) for cg, cf in zip(gb, fb)]
            face_matches(res, mesh, expect, f'{name}/{lbl}/face')
            ok(face_equal(snap_face(f), fb) and face_equal(snap_face(g), gb),
               f'{name}/{lbl}/face operands changed')
            ok(faces_unshared(res, [f, g]), f'{name}/{lbl}/face memory')
        ok(independent_faces(2.0 - f, [f]), name + ' rsub independence')
        f = rand_face(mesh, rng, integer=integer)
        ok(independent_faces(2.0 / f, [f]), name + ' rtruediv independence')
        f = rand_face(mesh, rng, integer=integer)
        ok(independent_faces(3 * f, [f]), name + ' rmul independence')
        f = rand_face(mesh, rng, integer=integer)
        ok(independent_faces(3 + f, [f]), name + ' radd independence')

        # direct operators (unchanged code, but make sure nothing broke)
        f = rand_face(mesh, rng, integer=integer)
        g = rand_face(mesh, rng)
        fb, gb = snap_face(f), snap_face(g)
        for lbl, op in DIRECT:
            for other, oc in ((g, gb), (1.5, (1.5,) * 3), (2, (2,) * 3)):
                res = op(f, other)
                expect = [op(a, b) for a, b in zip(fb, oc)]
                face_matches(res, mesh, expect, f'{name}/{lbl}')
        face_matches(-f, mesh, [-c for c in fb], name + '/neg')
        face_matches(abs(-f), mesh, [np.abs(-c) for c in fb], name + '/abs')
        face_matches((f > 1) & (g < 1.5), mesh,
                     [np.logical_and(a > 1, b < 1.5) for a, b in zip(fb, gb)],
                     name + '/and')
        face_matches((f > 1) | (g < 1.5), mesh,
                     [np.logical_or(a > 1, b < 1.5) for a, b in zip(fb, gb)],
                     name + '/or')
        ok(face_equal(snap_face(f), fb) and face_equal(snap_face(g), gb),
           name + ' operands changed by direct operators')

    # expression trees mixing direct and reflected operators
    for _ in range(20):
        f = rand_face(mesh, rng)
        g = rand_face(mesh, rng)
        h = rand_face(mesh, rng)
        fb, gb, hb = snap_face(f), snap_face(g), snap_face(h)
        res = 2.0 ** (1.0 - f / (3 + g)) - (0.5 * h) / (4 - f * g) + 1 / (2 + h)
        expect = [2.0 ** (1.0 - a / (3 + b)) - (0.5 * c) / (4 - a * b) + 1 / (2 + c)
                  for a, b, c in zip(fb, gb, hb)]
        face_matches(res, mesh, expect, name + '/tree')
        ok(all(face_equal(snap_face(v), b) for v, b in ((f, fb), (g, gb), (h, hb))),
           name + '/tree operands changed')
        ok(faces_unshared(res, [f, g, h]), name + '/tree memory')

    # faceeval and the coordinate-labelled components of a reflected result
    f = rand_face(mesh, rng)
    r = 1.0 - f
    e = pf.faceeval(lambda a, b: a * b, r, 2.0 / f)
    face_matches(e, mesh, [(1.0 - c) * (2.0 / c) for c in snap_face(f)],
                 name + '/faceeval')
    first = 'xvalue' if type(mesh) in (pf.Grid1D, pf.Grid2D, pf.Grid3D) else 'rvalue'
    ok(getattr(r, first) is r._xvalue, name + ' component property')


def check_face_in_pde(name, mesh, rng, kind):
    """coefficients built with reflected operators give the same matrices as
    coefficients built from numpy arrays; steady state is a fixed point"""
    base = rand_face(mesh, rng, lo=0.2, hi=0.8)
    bb = snap_face(base)
    D = 1.0 - base                      # rsub
    u = 0.05 / (1.0 + base)             # rtruediv, radd
    D_ref = pf.FaceVariable(mesh, *[1.0 - c for c in bb])
    u_ref = pf.FaceVariable(mesh, *[0.05 / (1.0 + c) for c in bb])
    Md, Md_ref = pf.diffusionTerm(D), pf.diffusionTerm(D_ref)
    Mc, Mc_ref = pf.convectionUpwindTerm(u), pf.convectionUpwindTerm(u_ref)
    ok((Md != Md_ref).nnz == 0, name + ' diffusion matrix')
    ok((Mc != Mc_ref).nnz == 0, name + ' convection matrix')
    ok(face_equal(snap_face(base), bb), name + ' base changed by term builders')

    X = pf.cellLocations(mesh)
    X = X if isinstance(X, pf.CellVariable) else X[0]
    alpha = 1.0 + X * X
    beta = pf.CellVariable(mesh, 0.8)
    src = 0.5 + alpha
    bc = random_BCs(mesh, rng, kind)
    terms = [-Md, Mc, pf.linearSourceTerm(beta), pf.constantSourceTerm(src)]
    phi_s = pf.CellVariable(mesh, 0.0, bc)
    pf.solvePDE(phi_s, terms)
    steady = np.array(phi_s._value)
    scale = np.max(np.abs(steady))
    for al in (2.0, alpha):
        for dt in 10.0 ** np.arange(-6, 7, 3):
            old = phi_s.copy()
            new = phi_s.copy()
            solver = FailingSolver(1)
            tt = [pf.transientTerm(old, dt, al)] + terms
            try:
                pf.solvePDE(new, tt, externalsolver=solver)
                ok(False, name + ' failing solver swallowed')
            except RuntimeError:
                pass
            pf.solvePDE(new, tt, externalsolver=solver)
            ok(np.max(np.abs(new._value - steady)) <= 1e-8 * scale,
               f'{name}/{kind}/dt={dt}: steady state not a fixed point')
        old = pf.CellVariable(mesh, rng.uniform(0.5, 2, size=tuple(mesh.dims)),
                              copy.deepcopy(bc))
        new = old.copy()
        pf.solvePDE(new, [pf.transientTerm(old, 1e13, al)] + terms)
        ok(np.max(np.abs(new.value - phi_s.value)) <= 1e-8 * scale,
           f'{name}/{kind}: dt->inf')
        new = old.copy()
        ov = np.array(old.value)
        pf.solvePDE(new, [pf.transientTerm(old, 1e-13, al)] + terms)
        ok(np.max(np.abs(new.value - ov)) <= 1e-8 * scale, f'{name}/{kind}: dt->0')
    # explicit step with a flux divergence built from reflected operators
    old = pf.CellVariable(mesh, rng.uniform(0.5, 2, size=tuple(mesh.dims)),
                          copy.deepcopy(bc))
    b = snap_cell(old)
    flux = (1.0 - base) * pf.gradientTerm(old)
    RHS = pf.divergenceTerm(flux)
    flux_ref = pf.FaceVariable(mesh, *[(1.0 - c) * gcomp for c, gcomp
                                       in zip(bb, snap_face(pf.gradientTerm(old)))])
    ok(same(RHS, pf.divergenceTerm(flux_ref)), name + ' divergence of flux')
    dt = 1e-4
    new = pf.solveExplicitPDE(old, dt, RHS)
    ok(cell_equal(snap_cell(old), b), name + ' explicit: input changed')
    sl = tuple(slice(1, -1) for _ in mesh.dims)
    expect = np.array(old.value) + dt * RHS.reshape(old._value.shape)[sl]
    ok(close(new.value, expect, rtol=1e-13, atol=0), name + ' explicit update')
    ok(ghosts_consistent(new), name + ' explicit: BCs re-imposed')
    ref = fresh_like(new)
    tt = [pf.transientTerm(new.copy(), 0.1, alpha)] + terms
    pf.solvePDE(new, tt)
    pf.solvePDE(ref, tt)
    ok(close(new._value, ref._value), name + ' explicit result in solvePDE')


def main():
    rng = np.random.default_rng(7)
    for name, mesh in all_meshes():
        check_face_algebra(name, mesh, rng)
        for kind in ('dirichlet', 'robin', 'periodic-one-side'):
            check_face_in_pde(name, mesh, rng, kind)
    print(f'check 2: {NCHECK[0]} assertions passed')


if __name__ == '__main__':
    main()
    sys.exit(0)
