"""
check.py for refactoring 2 (source.py: dimension-independent constantSourceTerm
and linearSourceTerm; the diagonal matrix is written directly in CSR form).

Run as:  PYTHONPATH=<tree>/src /venv/bin/python check.py
Exits 0 on the clean tree and on the patched tree.
"""
import copy
import sys
import warnings

import numpy as np
from scipy.sparse import csr_array, issparse

import pyfvtool as pf

NCHECK = [0]


def ok(cond, msg):
    NCHECK[0] += 1
    if not cond:
        print("FAIL:", msg)
        sys.exit(1)


def close(a, b, msg, rtol=1e-10):
    a = np.asarray(a, dtype=float)
    b = np.asarray(b, dtype=float)
    ok(a.shape == b.shape, msg + " (shape)")
    scale = max(1.0, float(np.max(np.abs(b))) if b.size else 1.0)
    err = float(np.max(np.abs(a - b))) if b.size else 0.0
    ok(np.isfinite(err) and err <= rtol*scale, f"{msg}: err={err:g} scale={scale:g}")


def snap(obj):
    if isinstance(obj, tuple):
        return tuple(snap(o) for o in obj)
    if issparse(obj):
        return (obj.shape, obj.data.tobytes(), obj.indices.tobytes(),
                obj.indptr.tobytes(), str(obj.data.dtype))
    a = np.asarray(obj)
    return (a.shape, a.tobytes(), str(a.dtype))


def snap_bc(BC):
    out = []
    for name in ('left', 'right', 'bottom', 'top', 'back', 'front'):
        f = getattr(BC, name)
        out.append((snap(f.a), snap(f.b), snap(f.c), bool(f.periodic), bool(f.modified)))
    return tuple(out)


def snap_mesh(m):
    out = [snap(np.asarray(m.dims))]
    for grp in (m.cellsize, m.cellcenters, m.facecenters):
        for comp in ('_x', '_y', '_z'):
            out.append(snap(getattr(grp, comp)))
    return tuple(out)


def snap_cell(v):
    return (snap(v._value), bool(v._value.modified), snap_bc(v.BCs), snap_mesh(v.domain))


def grids():
    xf = np.array([0.0, 0.1, 0.25, 0.45, 0.7, 1.0])
    yf = np.array([0.0, 0.3, 0.5, 1.0])
    zf = np.array([0.0, 0.4, 1.0])
    return [
        pf.Grid1D(6, 1.0),
        pf.Grid1D(xf),
        pf.Grid1D(1, 1.0),                       # a single cell
        pf.CylindricalGrid1D(5, 1.0),
        pf.SphericalGrid1D(xf + 0.5),
        pf.Grid2D(4, 3, 1.0, 2.0),
        pf.Grid2D(xf, yf),
        pf.Grid2D(1, 1, 1.0, 1.0),
        pf.CylindricalGrid2D(4, 3, 1.0, 2.0),
        pf.PolarGrid2D(4, 5, 1.0, 2*np.pi),
        pf.Grid3D(3, 4, 2, 1.0, 2.0, 3.0),
        pf.Grid3D(xf, yf, zf),
        pf.CylindricalGrid3D(3, 4, 2, 1.0, 2*np.pi, 1.0),
        pf.SphericalGrid3D(3, 4, 5, 1.0, np.pi, 2*np.pi),
    ]


def dims_of(m):
    return tuple(int(d) for d in m.dims)


def expected_vector(m, inner_values):
    """independent construction: zero-pad the inner values, row-major ravel"""
    return np.pad(np.asarray(inner_values, dtype=float), 1).ravel()


def expected_dense(m, inner_values):
    return np.diag(np.pad(np.asarray(inner_values), 1).ravel())


def ghost_mask(m):
    g = np.ones(tuple(d+2 for d in dims_of(m)), dtype=bool)
    g[tuple(slice(1, -1) for _ in dims_of(m))] = False
    return g.ravel()


def make_bc(m, variant):
    BC = pf.BoundaryConditions(m)
    nd = len(dims_of(m))
    BC.left.a[:] = 0.0
    BC.left.b[:] = 2.0
    BC.left.c[:] = 3.0
    BC.right.a[:] = 1.0
    BC.right.b[:] = 0.5
    BC.right.c[:] = 0.25
    if nd >= 2:
        if variant == 0:
            BC.top.periodic = True           # flag on one side only
        else:
            BC.bottom.a[:] = 0.0
            BC.bottom.b[:] = 1.0
            BC.bottom.c[:] = 0.4
    if nd == 3 and variant == 1:
        BC.back.periodic = True
    return BC


def check_builders(m, rng):
    name = type(m).__name__ + str(dims_of(m))
    dims = dims_of(m)
    shape = tuple(d+2 for d in dims)
    n = int(np.prod(shape))
    gmask = ghost_mask(m)
    inner = tuple(slice(1, -1) for _ in dims)

    vals = rng.uniform(-2.0, 2.0, dims)
    vals.flat[0] = 0.0                          # an exact zero coefficient
    if vals.size > 2:
        vals.flat[2] = -0.0
    for variant in (0, 1):
        BC = make_bc(m, variant)
        var = pf.CellVariable(m, vals, BC)
        # make the variable 'dirty': builders must not refresh derived state
        var.value[...] = vals*1.0
        var.BCs.right.c[:] = 0.75
        before = snap_cell(var)

        R1 = pf.constantSourceTerm(var)
        M1 = pf.linearSourceTerm(var)
        R2 = pf.constantSourceTerm(var)
        M2 = pf.linearSourceTerm(var)
        ok(snap_cell(var) == before, f"{name}: source builders modified their argument")
        ok(snap(R1) == snap(R2) and snap(M1) == snap(M2), f"{name}: repeated calls differ")
        ok(R1 is not R2 and M1 is not M2, f"{name}: builders must return new objects")

        # value, type, shape, interior-only rows
        ok(isinstance(R1, np.ndarray) and R1.ndim == 1 and R1.shape == (n,) and R1.dtype == np.float64,
           f"{name}: constantSourceTerm type")
        ok(np.array_equal(R1, expected_vector(m, vals)), f"{name}: constantSourceTerm values")
        ok(np.all(R1[gmask] == 0.0), f"{name}: constantSourceTerm in boundary rows")
        ok(isinstance(M1, csr_array) and M1.shape == (n, n) and M1.dtype == np.float64,
           f"{name}: linearSourceTerm type")
        ok(np.array_equal(M1.toarray(), expected_dense(m, vals)), f"{name}: linearSourceTerm values")
        ok(np.all(np.diff(M1.indptr)[gmask] == 0), f"{name}: linearSourceTerm stores boundary rows")
        ok(np.all(np.diff(M1.indptr)[~gmask] <= 1), f"{name}: linearSourceTerm row structure")
        x = rng.uniform(-1, 1, n)
        ok(np.array_equal(M1 @ x, expected_vector(m, vals)*x), f"{name}: matvec")
        # algebra on the result (used when negating / scaling terms)
        ok(np.array_equal((-M1).toarray(), -expected_dense(m, vals)), f"{name}: negation")
        ok(np.array_equal((2.5*M1).toarray(), 2.5*expected_dense(m, vals)), f"{name}: scaling")
        ok(np.array_equal((M1 + M2).toarray(), 2*expected_dense(m, vals)), f"{name}: addition")
        ok(np.array_equal(M1.T.toarray(), expected_dense(m, vals)), f"{name}: transpose")
        ok(np.array_equal(M1.tocsc().toarray(), expected_dense(m, vals)), f"{name}: csc")
        ok(np.array_equal(M1.diagonal(), expected_vector(m, vals)), f"{name}: diagonal")

        # no aliasing, in either direction
        ok(not np.shares_memory(R1, var._value) and not np.shares_memory(M1.data, var._value),
           f"{name}: result aliases the argument")
        keepR, keepM = snap(R1), snap(M1)
        var.value[...] = 99.0
        np.copyto(var._value, -5.0)
        ok(snap(R1) == keepR and snap(M1) == keepM, f"{name}: term changed by later edit of the variable")
        v2 = pf.CellVariable(m, vals, make_bc(m, variant))
        Rk = pf.constantSourceTerm(v2)
        Mk = pf.linearSourceTerm(v2)
        b2 = snap_cell(v2)
        Rk[:] = 7.0
        Mk.data[:] = 7.0
        Mk.indices[:] = 0
        ok(snap_cell(v2) == b2, f"{name}: in-place edit of a term reached the variable")
        ok(snap(pf.linearSourceTerm(v2)) == keepM and snap(pf.constantSourceTerm(v2)) == keepR,
           f"{name}: in-place edit of a term changed later results")
        ok(snap_mesh(m) == before[3], f"{name}: mesh arrays modified")

    # variables created from full arrays (ghost cells included): integer
    # input, Fortran order, float32; the ghost values must never be used
    full = rng.integers(-4, 5, shape)
    for arr in (full.astype(np.int64), np.asfortranarray(full.astype(float)),
                full.astype(np.float32), full.astype(bool),
                np.ascontiguousarray(full.astype(float).T).T if len(shape) > 1 else full.astype(float)[::1]):
        arr0 = arr.copy(order='K')
        v = pf.CellVariable(m, arr)
        M = pf.linearSourceTerm(v)
        R = pf.constantSourceTerm(v)
        ok(np.array_equal(arr, arr0), f"{name}: full input array modified ({arr.dtype})")
        ok(M.dtype == arr.dtype, f"{name}: linearSourceTerm dtype for {arr.dtype} input: {M.dtype}")
        ok(R.dtype == np.float64, f"{name}: constantSourceTerm dtype for {arr.dtype} input")
        ok(np.array_equal(M.toarray(), expected_dense(m, arr[inner])), f"{name}: values ({arr.dtype})")
        ok(np.array_equal(R, expected_vector(m, arr[inner])), f"{name}: vector values ({arr.dtype})")
        ok(not np.shares_memory(M.data, arr) and not np.shares_memory(R, arr), f"{name}: alias of full input")
        keep = snap(M), snap(R)
        arr[...] = 1
        ok((snap(M), snap(R)) == keep, f"{name}: term follows later edit of the user's array")
    # dtypes scipy.sparse does not support are rejected with ValueError
    v = pf.CellVariable(m, full.astype(np.float16))
    raised = False
    try:
        pf.linearSourceTerm(v)
    except ValueError:
        raised = True
    ok(raised, f"{name}: float16 coefficient must raise ValueError")
    # non-finite coefficients are passed through unchanged
    w = rng.uniform(1, 2, dims)
    w.flat[0] = np.nan
    w.flat[-1] = np.inf
    v = pf.CellVariable(m, w)
    ok(np.array_equal(pf.linearSourceTerm(v).diagonal(), expected_vector(m, w), equal_nan=True)
       and np.array_equal(pf.constantSourceTerm(v), expected_vector(m, w), equal_nan=True),
       f"{name}: non-finite values")


def check_transient(m, rng):
    name = type(m).__name__ + str(dims_of(m))
    dims = dims_of(m)
    old = rng.uniform(0.5, 1.5, dims)
    av = rng.uniform(0.5, 2.0, dims)
    dt = 0.37
    phi = pf.CellVariable(m, old, make_bc(m, 0))
    alpha = pf.CellVariable(m, av)
    cases = [((phi, dt), {}, np.ones(dims)),
             ((phi, dt, 2.5), {}, 2.5*np.ones(dims)),
             ((phi, dt, av), {}, av),
             ((phi, dt), {'alpha': alpha}, av),
             ((phi, dt, np.pad(av, 1, constant_values=123.0)), {}, av)]
    for args, kw, a in cases:
        sp, sa, s_av = snap_cell(phi), snap_cell(alpha), snap(av)
        M, R = pf.transientTerm(*args, **kw)
        M_, R_ = pf.transientTerm(*args, **kw)
        ok(snap_cell(phi) == sp and snap_cell(alpha) == sa and snap(av) == s_av,
           f"{name}: transientTerm modified an argument")
        ok(snap(M) == snap(M_) and snap(R) == snap(R_), f"{name}: transientTerm not deterministic")
        close(M.toarray(), expected_dense(m, a/dt), f"{name}: transient matrix", rtol=1e-14)
        close(R, expected_vector(m, a*old/dt), f"{name}: transient rhs", rtol=1e-14)
        ok(not np.shares_memory(M.data, phi._value) and not np.shares_memory(R, phi._value)
           and not np.shares_memory(M.data, alpha._value) and not np.shares_memory(M.data, av),
           f"{name}: transient term aliases an argument")
    raised = False
    try:
        pf.transientTerm(phi, dt, np.ones(tuple(d+5 for d in dims)))
    except ValueError:
        raised = True
    ok(raised, f"{name}: bad alpha shape must raise ValueError")


def check_solve(m, rng):
    """terms from source.py inside solvePDE == hand-assembled system"""
    name = type(m).__name__ + str(dims_of(m))
    dims = dims_of(m)
    if min(dims) < 2:
        return
    old = rng.uniform(0.5, 1.5, dims)
    bv = rng.uniform(0.1, 0.9, dims)
    gv = rng.uniform(-1.0, 1.0, dims)
    dt = 0.05
    D = pf.FaceVariable(m, 1.3)
    Md = pf.diffusionTerm(D)
    beta = pf.CellVariable(m, bv)
    gamma = pf.CellVariable(m, gv)
    Ml = pf.linearSourceTerm(beta)
    Rs = pf.constantSourceTerm(gamma)
    for variant in (0, 1):
        BC = make_bc(m, variant)
        phi = pf.CellVariable(m, old, BC)
        hist = []
        keep = snap(Ml), snap(Rs), snap(Md)
        for step in range(3):
            cur = np.array(phi.value, dtype=float, copy=True)
            T = pf.transientTerm(phi, dt)
            terms = [T, -Md, Ml, -2.0*Rs] if step % 2 == 0 else [-2.0*Rs, Ml, T[1], -Md, T[0]]
            out = pf.solvePDE(phi, terms)
            ok(out is phi, f"{name}: identity")
            # independent system: source parts rebuilt here from raw arrays
            Mbc, RHSbc = pf.boundaryConditionsTerm(BC)
            M = Mbc + csr_array(expected_dense(m, 1.0/dt + bv)) - Md
            RHS = RHSbc + expected_vector(m, cur/dt - 2.0*gv)
            ref = pf.solveMatrixPDE(m, M, RHS)
            close(phi.value, ref.value, f"{name}/v{variant}: step {step} vs hand-assembled system")
            fresh = pf.CellVariable(m, np.array(phi.value, copy=True), copy.deepcopy(BC))
            close(phi._value, fresh._value, f"{name}: ghost cells vs fresh variable", rtol=1e-12)
            hist.append(np.array(phi._value, copy=True))
            # the coefficient variables are edited in place between steps:
            # retained terms must stay what they were
            beta.value[...] = 1e3
            gamma.value[...] = -1e3
            ok((snap(Ml), snap(Rs), snap(Md)) == keep, f"{name}: retained terms changed in time loop")
            beta.value[...] = bv
            gamma.value[...] = gv
        # same history from scratch, terms rebuilt at every step
        phi2 = pf.CellVariable(m, old, make_bc(m, variant))
        for step in range(3):
            T = pf.transientTerm(phi2, dt)
            pf.solvePDE(phi2, [T, -pf.diffusionTerm(D), pf.linearSourceTerm(beta),
                               -2.0*pf.constantSourceTerm(gamma)])
            close(phi2._value, hist[step], f"{name}: history vs rebuilt terms, step {step}", rtol=1e-11)


def main():
    warnings.simplefilter("ignore")
    rng = np.random.default_rng(20260923)
    for m in grids():
        check_builders(m, rng)
        check_transient(m, rng)
        check_solve(m, rng)
    print(f"check 2: all {NCHECK[0]} assertions passed")


if __name__ == "__main__":
    main()
