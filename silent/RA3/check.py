"""
Standalone check of the 'no stale state' (C09) and 'boundary values satisfy the
boundary conditions' (C03) properties of PyFVTool through the public API.

Run as:  PYTHONPATH=<tree>/src /venv/bin/python check.py

Exits 0 if every assertion holds.
"""
import copy
import sys
import warnings

import numpy as np
import pyfvtool as pf

warnings.simplefilter("ignore")
RTOL, ATOL = 1e-9, 1e-11
SIDES = ['left', 'right', 'bottom', 'top', 'back', 'front']
NCHECK = [0]


# ----------------------------------------------------------------- meshes
def faces(rng, n, lo, hi):
    x = np.sort(rng.uniform(lo, hi, n-1))
    x = np.hstack([lo, x, hi])
    # avoid degenerate cells
    if np.min(np.diff(x)) < 0.02*(hi-lo)/n:
        x = np.linspace(lo, hi, n+1)*1.0
        x[1:-1] += 0.2*(hi-lo)/n*rng.uniform(-1, 1, n-1)
    return x


def make_meshes(rng):
    f = lambda n, lo, hi: faces(rng, n, lo, hi)
    return {
        'Grid1D': pf.Grid1D(f(6, 0.0, 1.0)),
        'Grid1D_u': pf.Grid1D(5, 2.0),
        'CylindricalGrid1D': pf.CylindricalGrid1D(f(6, 0.3, 1.4)),
        'SphericalGrid1D': pf.SphericalGrid1D(f(5, 0.2, 1.1)),
        'Grid2D': pf.Grid2D(f(4, 0.0, 1.0), f(5, 0.0, 2.0)),
        'CylindricalGrid2D': pf.CylindricalGrid2D(f(4, 0.2, 1.0), f(3, 0.0, 1.0)),
        'PolarGrid2D': pf.PolarGrid2D(f(3, 0.3, 1.0), f(5, 0.0, 2*np.pi)),
        'Grid3D': pf.Grid3D(f(3, 0.0, 1.0), f(4, 0.0, 1.0), f(3, 0.0, 1.5)),
        'CylindricalGrid3D': pf.CylindricalGrid3D(f(3, 0.2, 1.0),
                                                  f(4, 0.0, 2*np.pi),
                                                  f(3, 0.0, 1.0)),
        'SphericalGrid3D': pf.SphericalGrid3D(f(3, 0.3, 1.0),
                                              f(3, 0.4, 2.4),
                                              f(4, 0.0, 2*np.pi)),
    }


def ndim(m):
    return len(m.dims)


def used_sides(m):
    return SIDES[:2*ndim(m)]


def periodic_sides(m):
    """Sides on which a periodic flag is meaningful for this mesh."""
    t = type(m)
    if t is pf.Grid1D:
        return ['left', 'right']
    if t in (pf.CylindricalGrid1D, pf.SphericalGrid1D):
        return []
    if t is pf.Grid2D:
        return ['left', 'right', 'bottom', 'top']
    if t in (pf.CylindricalGrid2D, pf.PolarGrid2D):
        return ['bottom', 'top']
    if t is pf.Grid3D:
        return SIDES
    return ['bottom', 'top', 'back', 'front']


# ------------------------------------------------------- random BC content
def rand_coeffs(rng, face, side, kind=None):
    """Random a, b, c of the shape of the face's arrays with non-singular
    ghost-cell formula (a >= 0; b <= 0 on the 'low' sides, >= 0 on the 'high'
    sides)."""
    shp_a, shp_c = face.a.shape, face.c.shape
    sgn = -1.0 if side in ('left', 'bottom', 'back') else 1.0
    kind = kind or rng.choice(['dirichlet', 'neumann', 'robin', 'mixed'])
    if kind == 'dirichlet':
        a = np.zeros(shp_a)
        b = np.full(shp_a, rng.uniform(0.5, 2.0)*rng.choice([-1, 1]))
    elif kind == 'neumann':
        a = np.full(shp_a, rng.uniform(0.5, 2.0)*rng.choice([-1, 1]))
        b = np.zeros(shp_a)
    elif kind == 'robin':
        a = rng.uniform(0.5, 1.5, shp_a)
        b = sgn*rng.uniform(0.2, 1.5, shp_a)
    else:
        pick = rng.integers(0, 3, shp_a)
        a = np.where(pick == 0, 0.0, rng.uniform(0.5, 1.5, shp_a))
        b = np.where(pick == 1, 0.0, sgn*rng.uniform(0.2, 1.5, shp_a))
    c = rng.uniform(-1, 1, shp_c)
    return a, b, c


def set_random_BCs(rng, BC, m):
    for s in used_sides(m):
        f = getattr(BC, s)
        f.a, f.b, f.c = rand_coeffs(rng, f, s)


# --------------------------------------------------------- fresh reference
def fresh_from(phi):
    """A freshly constructed variable from the *visible* state of phi:
    interior values, boundary coefficients and periodic flags."""
    m = phi.domain
    BC = pf.BoundaryConditions(m)
    for s in SIDES:
        src, dst = getattr(phi.BCs, s), getattr(BC, s)
        if src.a.size:
            dst.a = np.array(src.a, dtype=float)
            dst.b = np.array(src.b, dtype=float)
            dst.c = np.array(src.c, dtype=float)
        if src.periodic:
            dst.periodic = True
    return pf.CellVariable(m, np.array(phi.value), BC)


def same(x, y, what):
    NCHECK[0] += 1
    x, y = np.asarray(x, dtype=float), np.asarray(y, dtype=float)
    assert x.shape == y.shape, (what, x.shape, y.shape)
    ok = np.allclose(x, y, rtol=RTOL, atol=ATOL, equal_nan=True)
    assert ok, (what, float(np.nanmax(np.abs(x-y))))


def same_var(phi, ref, what):
    same(phi.value, ref.value, what + ': interior')
    same(phi._value, ref._value, what + ': full array incl. ghost cells')
    same(phi.plotprofile()[-1], ref.plotprofile()[-1], what + ': plotprofile')


def any_periodic(BC):
    return any(getattr(BC, s).periodic for s in SIDES)


def check_bc_rows(phi, what):
    """C03: the boundary equations hold for the full value array."""
    if any_periodic(phi.BCs):
        return
    M, rhs = pf.boundaryConditionsTerm(phi.BCs)
    v = np.asarray(phi._value, dtype=float).ravel()
    if not np.all(np.isfinite(v)):
        return
    res = M @ v - rhs
    scale = 1.0 + np.abs(M).dot(np.abs(v)) + np.abs(rhs)
    NCHECK[0] += 1
    assert np.all(np.abs(res) <= 1e-9*scale), (what, float(np.max(np.abs(res)/scale)))


def check_periodic_wrap(phi, what):
    """Ghost cells wrap on 1D periodic grids."""
    if ndim(phi.domain) == 1 and any_periodic(phi.BCs):
        same(phi._value[0], phi._value[-2], what + ': periodic wrap left')
        same(phi._value[-1], phi._value[1], what + ': periodic wrap right')


# ------------------------------------------------------------ PDE pieces
class Problem:
    def __init__(self, rng, m):
        self.m = m
        self.D = pf.FaceVariable(m, 1.0)
        self.beta = pf.CellVariable(m, rng.uniform(0.5, 1.5, m.dims))
        self.gamma = pf.CellVariable(m, rng.uniform(-1.0, 1.0, m.dims))
        self.dt = 0.01

    def terms(self):
        return [-pf.diffusionTerm(self.D), pf.linearSourceTerm(self.beta),
                pf.constantSourceTerm(self.gamma)]

    def implicit(self, phi, externalsolver=None):
        return pf.solvePDE(phi, self.terms(), externalsolver=externalsolver)

    def explicit(self, phi):
        return pf.solveExplicitPDE(phi, self.dt,
                                   pf.constantSourceTerm(self.gamma))


class SolverFailure(RuntimeError):
    pass


def failing_solver(M, RHS):
    raise SolverFailure("external solver gave up")


def checked_implicit(prob, phi, what):
    ref = fresh_from(phi)
    out = prob.implicit(phi)
    assert out is phi, what + ': solvePDE must return its argument'
    prob.implicit(ref)
    same_var(phi, ref, what + ' [solvePDE vs fresh]')
    check_bc_rows(phi, what + ' [solvePDE rows]')
    check_periodic_wrap(phi, what)
    return phi


def checked_explicit(prob, phi, what):
    ref = fresh_from(phi)
    interior_before = np.array(phi.value)
    out = prob.explicit(phi)
    assert out is not phi
    same(phi.value, interior_before, what + ': explicit solver changed its argument')
    refout = prob.explicit(ref)
    same_var(out, refout, what + ' [solveExplicitPDE vs fresh]')
    same(phi.value, ref.value, what + ' [solveExplicitPDE argument interior]')
    check_bc_rows(out, what + ' [solveExplicitPDE rows]')
    check_periodic_wrap(out, what)
    return out


def checked_apply(phi, what):
    ref = fresh_from(phi)
    phi.apply_BCs()
    same_var(phi, ref, what + ' [apply_BCs vs fresh]')
    check_bc_rows(phi, what + ' [apply_BCs rows]')
    assert not phi.value.modified and not phi.BCs.modified, what


# ------------------------------------------------------- random histories
def random_index(rng, shape):
    idx = []
    for n in shape:
        if n == 0:
            idx.append(slice(None))
            continue
        k = rng.integers(0, 3)
        if k == 0:
            idx.append(slice(None))
        elif k == 1:
            i = int(rng.integers(0, n))
            idx.append(slice(i, int(rng.integers(i+1, n+1))))
        else:
            idx.append(int(rng.integers(0, n)))
    return tuple(idx)


def run_history(rng, name, m, length, defaulted):
    prob = Problem(rng, m)
    if defaulted:
        phi = pf.CellVariable(m, rng.uniform(0, 1, m.dims))
    else:
        BC = pf.BoundaryConditions(m)
        set_random_BCs(rng, BC, m)
        phi = pf.CellVariable(m, rng.uniform(0, 1, m.dims), BC)
    check_bc_rows(phi, name + ' construction')
    partner = None      # second variable sharing phi.BCs
    views = []          # retained views of coefficient arrays
    trail = []
    ops = ['coef', 'coef_slice', 'view_make', 'view_edit', 'utility',
           'periodic', 'value', 'value_slice', 'update_value', 'copy',
           'arith', 'share', 'partner_solve', 'implicit', 'explicit',
           'apply', 'failed_solve', 'manual_flag', 'deepcopy']
    for step in range(length):
        op = str(rng.choice(ops))
        trail.append(op)
        what = f"{name} defaulted={defaulted} history={trail}"
        side = str(rng.choice(used_sides(m)))
        face = getattr(phi.BCs, side)
        if op == 'coef':
            a, b, c = rand_coeffs(rng, face, side)
            which = rng.integers(0, 4)
            if which == 0:
                face.c = c
            elif which == 1:
                face.c = float(rng.uniform(-1, 1))
            else:
                face.a, face.b, face.c = a, b, c
        elif op == 'coef_slice':
            a, b, c = rand_coeffs(rng, face, side, kind='robin')
            ia = random_index(rng, face.a.shape)
            face.a[ia] = a[ia]
            face.b[ia] = b[ia]
            ic = random_index(rng, face.c.shape)
            face.c[ic] = c[ic]
        elif op == 'view_make':
            views.append((face, face.c[random_index(rng, face.c.shape)]))
        elif op == 'view_edit':
            for f_, v_ in views:
                if isinstance(v_, np.ndarray) and v_.size and \
                        any(f_ is getattr(phi.BCs, s) for s in SIDES):
                    v_[...] = rng.uniform(-1, 1)
        elif op == 'utility':
            k = rng.integers(0, 4)
            if k == 0:
                face.fixedValue(float(rng.uniform(-1, 1)))
            elif k == 1:
                face.fixedGradient(float(rng.uniform(-1, 1)),
                                   scale_coeffs=float(rng.uniform(0.5, 3)))
            elif k == 2:
                face.newtonCooling(1.3, 0.7, float(rng.uniform(-1, 1)),
                                   reverse_direction=side in ('left', 'bottom', 'back'))
            else:
                face.defaultNoFlux()
        elif op == 'periodic':
            ps = periodic_sides(m)
            if ps:
                f_ = getattr(phi.BCs, str(rng.choice(ps)))
                f_.periodic = not f_.periodic
        elif op == 'value':
            if rng.integers(0, 2):
                phi.value = rng.uniform(0, 1, m.dims)
            else:
                phi.value = np.arange(np.prod(m.dims)).reshape(m.dims)  # integers
        elif op == 'value_slice':
            phi.value[random_index(rng, tuple(m.dims))] = rng.uniform(0, 1)
        elif op == 'update_value':
            other = pf.CellVariable(m, rng.uniform(0, 1, m.dims))
            phi.update_value(other)
        elif op == 'copy':
            orig = phi
            phi = orig.copy()
            same(phi._value, orig._value, what + ': copy ghost layer')
            # the original is edited afterwards; the copy must not notice
            keep = np.array(phi._value)
            keepc = np.array(getattr(phi.BCs, side).c)
            orig.value = 7.0
            getattr(orig.BCs, side).fixedValue(-3.0)
            prob.implicit(orig)
            assert phi.BCs is not orig.BCs, what + ': copy shares its BCs'
            same(phi._value, keep, what + ': copy not independent')
            same(getattr(phi.BCs, side).c, keepc, what + ': copy BCs not independent')
            partner, views = None, []
        elif op == 'arith':
            k = rng.integers(0, 3)
            old = phi
            if k == 0:
                phi = 2.0*old + 1.0
            elif k == 1:
                phi = old*old - old/2.0
            else:
                phi = -abs(old) + old
            assert phi.BCs is not old.BCs
            partner, views = None, []
        elif op == 'share':
            partner = pf.CellVariable(m, rng.uniform(0, 1, m.dims), phi.BCs)
        elif op == 'partner_solve':
            if partner is not None:
                k = rng.integers(0, 3)
                if k == 0:
                    checked_implicit(prob, partner, what + ' (partner)')
                elif k == 1:
                    partner = checked_explicit(prob, partner, what + ' (partner)')
                else:
                    checked_apply(partner, what + ' (partner)')
        elif op == 'implicit':
            checked_implicit(prob, phi, what)
        elif op == 'explicit':
            phi = checked_explicit(prob, phi, what)
        elif op == 'apply':
            checked_apply(phi, what)
        elif op == 'failed_solve':
            try:
                prob.implicit(phi, externalsolver=failing_solver)
            except SolverFailure:
                pass
            else:
                raise AssertionError(what + ': solver failure swallowed')
        elif op == 'manual_flag':
            # documented way for edits that bypass item assignment
            np.copyto(face.c, rng.uniform(-1, 1, face.c.shape))
            face.c.modified = True
        elif op == 'deepcopy':
            phi = copy.deepcopy(phi)
            partner, views = None, []
    what = f"{name} defaulted={defaulted} final history={trail}"
    checked_implicit(prob, phi, what)
    if partner is not None and partner.BCs is phi.BCs:
        checked_implicit(prob, partner, what + ' (partner, final)')


# ------------------------------------------------------ scripted scenarios
def scenario_shared_bc(rng, name, m):
    prob = Problem(rng, m)
    BC = pf.BoundaryConditions(m)
    set_random_BCs(rng, BC, m)
    u = pf.CellVariable(m, 0.3, BC)
    v = pf.CellVariable(m, 0.6, BC)
    w = pf.CellVariable(m, 0.9, BC, BCsTerm_precalc=False)
    assert u.BCs is v.BCs is w.BCs
    checked_implicit(prob, u, name + ' shared: first')
    checked_implicit(prob, v, name + ' shared: second')
    for rnd in range(3):
        s = used_sides(m)[rnd % len(used_sides(m))]
        getattr(BC, s).fixedValue(1.0 + rnd)
        order = [u, v] if rnd % 2 else [v, u]
        if rnd == 1:
            w.apply_BCs()     # a variable without precalculated terms consumes the edit
            ref = fresh_from(w)
            same_var(w, ref, name + ' shared: precalc-less variable')
        checked_implicit(prob, order[0], name + f' shared: round {rnd} a')
        checked_implicit(prob, order[1], name + f' shared: round {rnd} b')
        e = checked_explicit(prob, order[0], name + f' shared: round {rnd} explicit')
        assert e.BCs is BC
        getattr(BC, s).c[...] = -0.5
        checked_implicit(prob, e, name + f' shared: round {rnd} explicit->implicit')
        checked_implicit(prob, order[1], name + f' shared: round {rnd} other after')
        checked_implicit(prob, order[0], name + f' shared: round {rnd} first after')


def scenario_retry_after_failure(rng, name, m):
    prob = Problem(rng, m)
    phi = pf.CellVariable(m, rng.uniform(0, 1, m.dims))
    phi.BCs.left.fixedValue(1.0)
    phi.BCs.right.fixedValue(0.0)
    for k in range(2):
        phi.value = rng.uniform(0, 1, m.dims)
        phi.BCs.right.c = float(k)
        before = np.array(phi.value)
        try:
            prob.implicit(phi, externalsolver=failing_solver)
        except SolverFailure:
            pass
        else:
            raise AssertionError('no failure')
        same(phi.value, before, name + ' failed solve changed the interior')
        checked_implicit(prob, phi, name + f' retry after failed solve {k}')
    # malformed term list: TypeError, then retry
    try:
        pf.solvePDE(phi, [np.zeros((2, 2, 2))])
    except TypeError:
        pass
    else:
        raise AssertionError('malformed term accepted')
    checked_implicit(prob, phi, name + ' retry after TypeError')


def scenario_radial_periodic(rng, name, m):
    """Radial periodic BCs are refused with ValueError; after taking the
    flag back, everything works as for a fresh variable."""
    if type(m) in (pf.Grid1D, pf.Grid2D, pf.Grid3D):
        return
    prob = Problem(rng, m)
    phi = pf.CellVariable(m, rng.uniform(0, 1, m.dims))
    phi.BCs.right.fixedValue(2.0)
    checked_implicit(prob, phi, name + ' radial: before')
    phi.BCs.left.periodic = True
    for call in (lambda: prob.implicit(phi), lambda: phi.apply_BCs(),
                 lambda: prob.explicit(phi),
                 lambda: pf.CellVariable(m, 1.0, phi.BCs)):
        try:
            call()
        except ValueError:
            pass
        else:
            raise AssertionError(name + ': radial periodic BC accepted')
    phi.BCs.left.periodic = False
    checked_implicit(prob, phi, name + ' radial: retry')
    e = checked_explicit(prob, phi, name + ' radial: explicit')
    checked_implicit(prob, e, name + ' radial: explicit->implicit')


def scenario_scale_invariance(rng, name, m):
    prob = Problem(rng, m)
    BC = pf.BoundaryConditions(m)
    set_random_BCs(rng, BC, m)
    phi = pf.CellVariable(m, 0.5, BC)
    prob.implicit(phi)
    ref = np.array(phi._value)
    for s in used_sides(m):
        f = getattr(BC, s)
        k = rng.uniform(0.5, 3.0, f.a.shape)*rng.choice([-1, 1])
        f.a[...] = f.a*k
        f.b[...] = f.b*k
        f.c[...] = np.asarray(f.c)*k.reshape(f.c.shape)
    phi.value = 0.5
    checked_implicit(prob, phi, name + ' scaled')
    same(phi._value, ref, name + ' scaling (a,b,c) changed the solution')


def scenario_flags(rng, name, m):
    """Public `modified` flags."""
    phi = pf.CellVariable(m, 1.0)
    assert not phi.value.modified and not phi.BCs.modified
    for s in used_sides(m):
        f = getattr(phi.BCs, s)
        assert not f.modified
        f.c[...] = 1.0
        assert f.modified and f.c.modified and phi.BCs.modified
        f.modified = False
        assert not f.modified and not f.c.modified
        v = f.a[...]
        v[...] = 2.0
        assert f.a.modified and f.modified
        f.a.modified = False
        assert not f.modified
        f.periodic = f.periodic
        assert f.modified
        f.modified = False
    assert not phi.BCs.modified
    phi.value[...] = 3.0
    assert phi.value.modified
    phi.apply_BCs()
    assert not phi.value.modified
    phi.update_value(pf.CellVariable(m, 2.0))
    assert phi.value.modified
    phi.BCs.left.a = 1.0
    phi.apply_BCs()
    assert not phi.value.modified and not phi.BCs.modified
    from pyfvtool.utilities import TrackedArray
    arr = TrackedArray([1, 2, 3])
    assert arr.modified is False or arr.modified == False
    arr[0] = 10
    assert arr.modified
    arr.modified = False
    arr[1:3][0] = 5
    assert arr.modified
    arr.modified = False
    assert not arr.modified
    np.copyto(arr, [7, 8, 9])
    assert not arr.modified
    arr.modified = True
    assert arr.modified
    d = arr + 1
    d.modified = False
    d[0] = 0
    assert d.modified and arr.modified
    arr.modified = False
    d[1] = 0
    assert not arr.modified      # d is not a view of arr


def scenario_precalc_false(rng, name, m):
    prob = Problem(rng, m)
    phi = pf.CellVariable(m, 0.2, pf.BoundaryConditions(m), BCsTerm_precalc=False)
    try:
        prob.implicit(phi)
    except AttributeError:
        pass
    else:
        raise AssertionError('variable without boundary terms accepted by solvePDE')
    e = checked_explicit(prob, phi, name + ' precalc-less: explicit')
    checked_implicit(prob, e, name + ' precalc-less: explicit->implicit')


def scenario_adopt_bc(rng, name, m):
    """A variable adopts the (already used) BCs object of another one."""
    prob = Problem(rng, m)
    BC = pf.BoundaryConditions(m)
    set_random_BCs(rng, BC, m)
    u = pf.CellVariable(m, 0.3, BC)
    checked_implicit(prob, u, name + ' adopt: owner')
    v = pf.CellVariable(m, 0.6)           # own default BCs, never edited
    v.BCs = BC
    checked_implicit(prob, v, name + ' adopt: adopter')
    BC.right.c[...] = 0.25
    checked_implicit(prob, v, name + ' adopt: adopter after edit')
    checked_implicit(prob, u, name + ' adopt: owner after edit')
    # face-level and array-level manual flags (documented for edits that
    # bypass item assignment)
    np.copyto(BC.left.c, np.full(BC.left.c.shape, -0.75))
    BC.left.modified = True
    checked_implicit(prob, u, name + ' adopt: manual face flag')
    checked_implicit(prob, v, name + ' adopt: manual face flag, other')
    keepview = BC.right.c[...]
    u.apply_BCs()
    keepview[...] = 0.5                   # view retained across a reset
    checked_implicit(prob, v, name + ' adopt: retained view')
    checked_implicit(prob, u, name + ' adopt: retained view, other')


def main(extra=()):
    rng = np.random.default_rng(20260923)
    meshes = make_meshes(rng)
    for name, m in meshes.items():
        for sc in (scenario_flags, scenario_shared_bc,
                   scenario_retry_after_failure, scenario_radial_periodic,
                   scenario_scale_invariance, scenario_precalc_false,
                   scenario_adopt_bc) + tuple(extra):
            sc(rng, name, m)
        nhist = 14 if ndim(m) < 3 else 6
        for i in range(nhist):
            run_history(rng, name, m, int(rng.integers(3, 14)), defaulted=bool(i % 2))
    print(f"check.py: all {NCHECK[0]} comparisons passed")
    return 0


def scenario_unchanged_bcs(rng, name, m):
    """Sequences in which the boundary conditions are (or end up) the same as
    at the previous solve, while values change - and the other way round."""
    prob = Problem(rng, m)
    BC = pf.BoundaryConditions(m)
    set_random_BCs(rng, BC, m)
    phi = pf.CellVariable(m, 0.5, BC)
    for k in range(3):                              # value-only edits
        phi.value = rng.uniform(0, 1, m.dims)
        checked_implicit(prob, phi, name + f' unchanged: value edit {k}')
        phi.value[random_index(rng, tuple(m.dims))] = 0.125
        checked_apply(phi, name + f' unchanged: apply {k}')
    s = used_sides(m)[-1]
    face = getattr(BC, s)
    a0, b0, c0 = np.array(face.a), np.array(face.b), np.array(face.c)
    face.fixedValue(3.0)                            # A -> B
    checked_implicit(prob, phi, name + ' unchanged: A->B')
    face.a, face.b, face.c = a0, b0, c0             # B -> A
    checked_implicit(prob, phi, name + ' unchanged: B->A')
    face.fixedValue(3.0)                            # A -> B -> A without a solve
    face.a, face.b, face.c = a0, b0, c0
    checked_implicit(prob, phi, name + ' unchanged: A->B->A')
    face.c = np.asarray(c0) + 1                     # only c differs
    checked_implicit(prob, phi, name + ' unchanged: c+1')
    face.c = (np.asarray(c0) + 1).astype(np.float32).astype(float)
    checked_implicit(prob, phi, name + ' unchanged: c rounded')
    face.b = -np.asarray(b0)
    face.a = np.asarray(a0) + 0.0
    face.b = b0                                     # sign flipped and back
    checked_implicit(prob, phi, name + ' unchanged: b flip')
    ps = periodic_sides(m)
    if ps:
        f_ = getattr(BC, ps[-1])
        f_.periodic = True
        checked_implicit(prob, phi, name + ' unchanged: periodic on')
        e = checked_explicit(prob, phi, name + ' unchanged: periodic explicit')
        f_.periodic = False
        checked_implicit(prob, e, name + ' unchanged: periodic off, explicit->implicit')
        checked_implicit(prob, phi, name + ' unchanged: periodic off')
    # chain of explicit steps with a BC edit through an intermediate result
    e1 = checked_explicit(prob, phi, name + ' unchanged: e1')
    e1.BCs.left.fixedValue(-1.5)
    e2 = checked_explicit(prob, e1, name + ' unchanged: e2')
    checked_implicit(prob, e2, name + ' unchanged: e2 implicit')
    checked_implicit(prob, phi, name + ' unchanged: phi after chain')
    checked_implicit(prob, e1, name + ' unchanged: e1 after chain')
    # same coefficients, other mesh of the same shape: nothing may be mixed up
    m2 = type(m)(*[np.linspace(1.0, 2.0, n+1) for n in m.dims])
    if type(m) not in (pf.SphericalGrid3D,):
        p2 = Problem(rng, m2)
        BCm2 = pf.BoundaryConditions(m2)
        for sd in used_sides(m):
            src, dst = getattr(BC, sd), getattr(BCm2, sd)
            dst.a, dst.b, dst.c = np.array(src.a), np.array(src.b), np.array(src.c)
        q = pf.CellVariable(m2, np.array(phi.value), BCm2)
        checked_implicit(p2, q, name + ' unchanged: twin mesh')
        dc = copy.deepcopy(q)
        dc.value = 0.75
        checked_implicit(p2, dc, name + ' unchanged: deepcopy')
        checked_implicit(p2, q, name + ' unchanged: twin mesh again')


if __name__ == '__main__':
    sys.exit(main(extra=(scenario_unchanged_bcs,)))
