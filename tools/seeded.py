#!/venv/bin/python
"""Seeded property-breaking changes (written by independent sub-agents).

  seeded.py --add SRC_DIR --id ID --prop Cxx [--needs TEXT]
      validate a candidate (SRC_DIR holds patch.diff, demo.py, notes.md) in a
      scratch worktree of /repo: demo passes clean, fails patched, baseline
      suite still 48 passed + 1 pre-existing error; then store it as
      /verif/seeded/ID/{patch.diff,demo.py,notes.md,meta.json}
  seeded.py --eval [ID ...] [--props C09,C04] [--tier quick]
      run the checks against each stored change (scratch worktree +
      PYFVTOOL_SRC; /repo itself is never modified) and write
      /verif/seeded/RESULTS.json

Scratch worktrees live under /tmp and are removed as soon as they are done.
"""
import argparse
import json
import os
import shutil
import subprocess
import sys
import time
from concurrent.futures import ThreadPoolExecutor

HERE = os.path.dirname(os.path.abspath(__file__))
VERIF = os.path.dirname(HERE)
SEEDED = os.path.join(VERIF, "seeded")
PY = "/venv/bin/python"
ALL = ["C03", "C04", "C09", "C12", "C14", "C15"]
FIRST = False


def sh(cmd, **kw):
    return subprocess.run(cmd, capture_output=True, text=True, **kw)


def worktree(tag):
    d = "/tmp/sd_%s_%d" % (tag, os.getpid())
    sh(["git", "-C", "/repo", "worktree", "remove", "--force", d])
    r = sh(["git", "-C", "/repo", "worktree", "add", "--detach", d, "HEAD"])
    if r.returncode != 0:
        raise RuntimeError(r.stderr)
    return d


def drop(d):
    sh(["git", "-C", "/repo", "worktree", "remove", "--force", d])
    shutil.rmtree(d, ignore_errors=True)
    sh(["git", "-C", "/repo", "worktree", "prune"])


def run_demo(wt, demo):
    env = dict(os.environ, PYTHONPATH=os.path.join(wt, "src"))
    r = sh([PY, demo], env=env, cwd="/tmp", timeout=600)
    return r.returncode, (r.stdout + r.stderr)[-400:]


def baseline(wt):
    env = dict(os.environ, PYTHONPATH=os.path.join(wt, "src"))
    r = sh([PY, "-m", "pytest", "-q", "-p", "no:cacheprovider", "--timeout=900",
            "--continue-on-collection-errors"], env=env, cwd=wt, timeout=3000)
    last = [l for l in r.stdout.splitlines() if "passed" in l or "failed" in l or "error" in l]
    return last[-1] if last else r.stdout[-200:]


def add(src, sid, prop, needs):
    patch = os.path.join(src, "patch.diff")
    demo = os.path.join(src, "demo.py")
    wt = worktree(sid)
    meta = {"id": sid, "property": prop, "needs": needs, "validated": {}}
    try:
        rc0, out0 = run_demo(wt, demo)
        meta["validated"]["demo_clean_exit"] = rc0
        r = sh(["git", "-C", wt, "apply", patch])
        if r.returncode != 0:
            print("patch does not apply:", r.stderr)
            return 2
        rc1, out1 = run_demo(wt, demo)
        meta["validated"]["demo_patched_exit"] = rc1
        meta["validated"]["demo_patched_tail"] = out1[-200:]
        meta["validated"]["baseline_patched"] = baseline(wt)
        st = sh(["git", "-C", wt, "diff", "--stat"]).stdout.strip().splitlines()
        meta["validated"]["diffstat"] = st[-1] if st else ""
    finally:
        drop(wt)
    ok = (meta["validated"]["demo_clean_exit"] == 0 and meta["validated"]["demo_patched_exit"] != 0
          and "48 passed" in meta["validated"]["baseline_patched"]
          and "failed" not in meta["validated"]["baseline_patched"])
    meta["validated"]["ok"] = ok
    meta["ran"] = ["demo.py on a clean scratch worktree of /repo HEAD (exit 0 expected)",
                   "git apply patch.diff; demo.py again (non-zero expected)",
                   "pytest baseline command on the patched worktree (48 passed, 1 error expected)"]
    print(json.dumps(meta, indent=1))
    if not ok:
        print("NOT KEPT")
        return 1
    dst = os.path.join(SEEDED, sid)
    os.makedirs(dst, exist_ok=True)
    for f in ("patch.diff", "demo.py", "notes.md"):
        if os.path.exists(os.path.join(src, f)):
            shutil.copy(os.path.join(src, f), os.path.join(dst, f))
    json.dump(meta, open(os.path.join(dst, "meta.json"), "w"), indent=1)
    print("kept as", dst)
    return 0


def eval_one(sid, props, tier, workers):
    d = os.path.join(SEEDED, sid)
    meta = json.load(open(os.path.join(d, "meta.json")))
    wt = worktree("ev_" + sid)
    res = {"id": sid, "property": meta["property"], "checks": {}}
    try:
        r = sh(["git", "-C", wt, "apply", os.path.join(d, "patch.diff")])
        if r.returncode != 0:
            res["error"] = "patch does not apply: " + r.stderr[-200:]
            return res
        env = dict(os.environ, PYFVTOOL_SRC=os.path.join(wt, "src"),
                   VERIF_REPLAY_DIR="/tmp/sd_replays/" + sid)
        for p in props or [meta["property"]]:
            t0 = time.time()
            r = sh([PY, os.path.join(VERIF, "check.py"), "--property", p, "--tier", tier,
                    "--no-evidence", "--workers", str(workers)] + (["--first"] if FIRST else []),
                   env=env, timeout=6 * 3600)
            cls = [l.split()[2] for l in r.stdout.splitlines() if l.startswith("violation class")]
            res["checks"][p] = {"exit": r.returncode, "classes": cls[:5],
                                "wall": round(time.time() - t0, 1)}
            if r.returncode == 2:
                res["checks"][p]["stderr"] = r.stderr[-500:]
    finally:
        drop(wt)
    res["caught_by"] = sorted(p for p, c in res["checks"].items() if c["exit"] == 1)
    return res


def main():
    ap = argparse.ArgumentParser()
    ap.add_argument("--add")
    ap.add_argument("--id")
    ap.add_argument("--prop")
    ap.add_argument("--needs", default="")
    ap.add_argument("--eval", nargs="*")
    ap.add_argument("--props")
    ap.add_argument("--tier", default="quick")
    ap.add_argument("--jobs", type=int, default=3)
    ap.add_argument("--workers", type=int, default=4)
    ap.add_argument("--first", action="store_true", help="stop each check at its first violation")
    a = ap.parse_args()
    global FIRST
    FIRST = a.first
    if a.add:
        return add(a.add, a.id, a.prop, a.needs)
    if a.eval is not None:
        ids = a.eval or sorted(x for x in os.listdir(SEEDED)
                               if os.path.isdir(os.path.join(SEEDED, x)))
        props = a.props.split(",") if a.props else None
        if a.props == "all":
            props = ALL
        out = []
        with ThreadPoolExecutor(max_workers=a.jobs) as ex:
            for r in ex.map(lambda s: eval_one(s, props, a.tier, a.workers), ids):
                out.append(r)
                print("%-28s breaks=%s caught_by=%s %s" % (
                    r["id"], r["property"], r.get("caught_by"),
                    r.get("error") or {p: (c["exit"], c["classes"][:2]) for p, c in r["checks"].items()}),
                    flush=True)
        path = os.path.join(SEEDED, "RESULTS.json")
        prev = {}
        if os.path.exists(path):
            prev = {r["id"]: r for r in json.load(open(path))}
        for r in out:
            prev[r["id"]] = r
        json.dump(sorted(prev.values(), key=lambda r: r["id"]), open(path, "w"), indent=1)
        return 0
    ap.print_help()
    return 2


if __name__ == "__main__":
    sys.exit(main())
