#!/bin/bash
# usage: baseline.sh <worktree dir> -> runs the repository's test suite against that tree
# prints "passed=<n> failed=<n> errors=<n>"
d=$1
cd "$d" || exit 2
PYTHONPATH="$d/src" timeout 1500 /venv/bin/python -m pytest -q -p no:cacheprovider --timeout=900 --continue-on-collection-errors 2>&1 | tail -3
PYTHONPATH="$d/src" /venv/bin/python -c "import pyfvtool; print('imported from', pyfvtool.__file__)"
