#!/venv/bin/python
"""Merge the progress lines of a `tools/seeded.py --eval` log (one line per
change, printed as soon as it is done) into seeded/RESULTS.json.  Used when a
long evaluation started from a snapshot (`vp run`) was stopped before it wrote
its own RESULTS.json.

usage: merge_log.py LOGFILE [--prefer-more]   (--prefer-more: keep the stored
entry of an id if it covers more checks than the log line does)"""
import ast
import json
import os
import re
import sys

HERE = os.path.dirname(os.path.abspath(__file__))
PATH = os.path.join(os.path.dirname(HERE), "seeded", "RESULTS.json")
rx = re.compile(r"^(\S+)\s+breaks=(\S+) caught_by=(\[.*?\]) (\{.*\})\s*$")


def main():
    log = sys.argv[1]
    prefer_more = "--prefer-more" in sys.argv
    prev = {r["id"]: r for r in json.load(open(PATH))}
    n = 0
    for line in open(log, errors="replace"):
        m = rx.match(line.strip())
        if not m:
            continue
        sid, prop, caught, d = m.group(1), m.group(2), ast.literal_eval(m.group(3)), ast.literal_eval(m.group(4))
        ent = {"id": sid, "property": prop, "caught_by": caught,
               "checks": {p: {"exit": e, "classes": c} for p, (e, c) in d.items()}}
        if prefer_more and sid in prev and len(prev[sid].get("checks", {})) > len(ent["checks"]):
            # refresh only the checks the log has
            prev[sid]["checks"].update(ent["checks"])
            prev[sid]["caught_by"] = sorted(p for p, c in prev[sid]["checks"].items() if c["exit"] == 1)
        else:
            prev[sid] = ent
        n += 1
    json.dump(sorted(prev.values(), key=lambda r: r["id"]), open(PATH, "w"), indent=1)
    print("merged %d entries" % n)


if __name__ == "__main__":
    main()
