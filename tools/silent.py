#!/venv/bin/python
"""Behaviour-preserving refactorings written by independent sub-agents: the
checks must stay silent on them (the soundness side of tools/seeded.py).

  silent.py --add SRC_DIR --id ID [--area TEXT]
      validate (SRC_DIR holds patch.diff, check.py, notes.md): the agent's own
      check.py exits 0 on a clean scratch worktree and with the patch applied,
      baseline suite 48 passed + 1 pre-existing error; store as /verif/silent/ID/
  silent.py --eval [ID ...] [--tier quick]
      run all six checks against each stored refactoring (scratch worktree +
      PYFVTOOL_SRC); every check must exit 0.  Results: /verif/silent/RESULTS.json
"""
import argparse
import json
import os
import shutil
import sys
import time
from concurrent.futures import ThreadPoolExecutor

HERE = os.path.dirname(os.path.abspath(__file__))
sys.path.insert(0, HERE)
import seeded as SD          # noqa: E402

VERIF = os.path.dirname(HERE)
SILENT = os.path.join(VERIF, "silent")
LIGHT = []      # --light: about half of the quick budget per check


def add(src, sid, area):
    patch = os.path.join(src, "patch.diff")
    chk = os.path.join(src, "check.py")
    wt = SD.worktree("sl_" + sid)
    meta = {"id": sid, "area": area, "expect": "silent", "validated": {}}
    try:
        rc0, _ = SD.run_demo(wt, chk)
        meta["validated"]["own_check_clean_exit"] = rc0
        r = SD.sh(["git", "-C", wt, "apply", patch])
        if r.returncode != 0:
            print("patch does not apply:", r.stderr)
            return 2
        rc1, out1 = SD.run_demo(wt, chk)
        meta["validated"]["own_check_patched_exit"] = rc1
        meta["validated"]["baseline_patched"] = SD.baseline(wt)
        st = SD.sh(["git", "-C", wt, "diff", "--stat"]).stdout.strip().splitlines()
        meta["validated"]["diffstat"] = st[-1] if st else ""
    finally:
        SD.drop(wt)
    v = meta["validated"]
    ok = (v["own_check_clean_exit"] == 0 and v["own_check_patched_exit"] == 0
          and "48 passed" in v["baseline_patched"] and "failed" not in v["baseline_patched"])
    v["ok"] = ok
    print(json.dumps(meta, indent=1))
    if not ok:
        print("NOT KEPT")
        return 1
    dst = os.path.join(SILENT, sid)
    os.makedirs(dst, exist_ok=True)
    for f in ("patch.diff", "check.py", "notes.md"):
        if os.path.exists(os.path.join(src, f)):
            shutil.copy(os.path.join(src, f), os.path.join(dst, f))
    json.dump(meta, open(os.path.join(dst, "meta.json"), "w"), indent=1)
    print("kept as", dst)
    return 0


def eval_one(sid, tier, workers):
    d = os.path.join(SILENT, sid)
    wt = SD.worktree("se_" + sid)
    res = {"id": sid, "checks": {}}
    try:
        r = SD.sh(["git", "-C", wt, "apply", os.path.join(d, "patch.diff")])
        if r.returncode != 0:
            res["error"] = "patch does not apply: " + r.stderr[-200:]
            return res
        env = dict(os.environ, PYFVTOOL_SRC=os.path.join(wt, "src"),
                   VERIF_REPLAY_DIR="/tmp/sl_replays/" + sid)
        for p in SD.ALL:
            t0 = time.time()
            r = SD.sh([SD.PY, os.path.join(VERIF, "check.py"), "--property", p, "--tier", tier,
                       "--no-evidence", "--workers", str(workers)] + LIGHT, env=env, timeout=6 * 3600)
            cls = [l.split()[2] for l in r.stdout.splitlines() if l.startswith("violation class")]
            res["checks"][p] = {"exit": r.returncode, "classes": cls[:5],
                                "wall": round(time.time() - t0, 1)}
            if r.returncode == 2:
                res["checks"][p]["stderr"] = r.stderr[-800:]
    finally:
        SD.drop(wt)
    res["silent"] = all(c["exit"] == 0 for c in res["checks"].values())
    return res


def main():
    ap = argparse.ArgumentParser()
    ap.add_argument("--add")
    ap.add_argument("--id")
    ap.add_argument("--area", default="")
    ap.add_argument("--eval", nargs="*")
    ap.add_argument("--tier", default="quick")
    ap.add_argument("--jobs", type=int, default=3)
    ap.add_argument("--workers", type=int, default=5)
    ap.add_argument("--light", action="store_true")
    a = ap.parse_args()
    if a.light:
        LIGHT.extend(["--runs", "800", "--fault-runs", "350", "--strat-scale", "0.5"])
    if a.add:
        return add(a.add, a.id, a.area)
    if a.eval is not None:
        ids = a.eval or sorted(x for x in os.listdir(SILENT) if os.path.isdir(os.path.join(SILENT, x)))
        out = []
        with ThreadPoolExecutor(max_workers=a.jobs) as ex:
            for r in ex.map(lambda s: eval_one(s, a.tier, a.workers), ids):
                out.append(r)
                print("%-10s silent=%s %s" % (r["id"], r.get("silent"), r.get("error") or
                                              {p: (c["exit"], c["classes"][:2]) for p, c in r["checks"].items()}),
                      flush=True)
        path = os.path.join(SILENT, "RESULTS.json")
        prev = {}
        if os.path.exists(path):
            prev = {r["id"]: r for r in json.load(open(path))}
        for r in out:
            prev[r["id"]] = r
        json.dump(sorted(prev.values(), key=lambda r: r["id"]), open(path, "w"), indent=1)
        return 0 if all(r.get("silent") for r in out) else 1
    ap.print_help()
    return 2


if __name__ == "__main__":
    sys.exit(main())
