import json
props = {
 "C09": ("DESIGN.md 3 (I3, I1), 4 C09",
   "Seeded search over operation histories (edits in every supported spelling, sharing, copies, algebra, both solvers, apply_BCs, injected call failures) interleaved by a seeded scheduler over 1-5 simulated user tasks; after every op a behavioural shadow solve (deepcopy of the variable with all hidden state, then one implicit and one explicit solve) must equal the same solves on a freshly constructed variable built from the visible state; bounded liveness after the last fault. Exploration, not proof: the history space is unbounded and sampled."),
 "C14": ("DESIGN.md 3 (I2, I1, I8), 4 C14",
   "Seeded histories in which operator/eval/copy results become operands and targets of later edits by other tasks: per-op numpy reference for values, value-copy reference for BCs, fresh-twin reference for ghost values, byte-level frame condition on every other pool object after every later op, alias scan at creation. Exploration over expression trees and later-modification histories."),
 "C15": ("DESIGN.md 3 (I1, I7, I8), 4 C15",
   "Every public builder and solver runs inside shared-object histories; byte snapshots of the whole pool around every call (frame condition), rebuild of recorded calls must be bit-identical, event-log digests must agree across interpreters and hash seeds, alias scan of every returned object against mesh/input storage, in-place scribbles on returned objects must leave everything else unchanged, canary meshes monitor process-global state. Exploration."),
 "C03": ("DESIGN.md 3 (I4), 4 C03",
   "History clause decided by simulation: after each of the four ghost-recomputing operations at any point of any edit history the target's ghost layer satisfies the *latest* (a,b,c)/periodic flags (formula written independently of boundary.py incl. 1/r and 1/(r sin theta)), wraps exactly on periodic axes and only there, plot profile edges are face averages and the solver's boundary rows give c on the full array. Input space (side x kind x class x spacing) only sampled; scale invariance of (a,b,c) not checked."),
 "C04": ("DESIGN.md 3 (I5), 4 C04",
   "At every solvePDE of every history: returned object identity, independent assembly (fresh BC term + signed/scaled term list) with backward-residual comparison, solveMatrixPDE equivalence, ghost-row leak test of every emitted term, and the external-solver seam via a recording fake (identical system in, returned vector stored, exactly one call; fake may raise or return a wrong shape). Linearity and completeness over term combinations not claimed."),
 "C12": ("DESIGN.md 3 (I6), 4 C12",
   "Stepping semantics over multi-step histories: explicit update formula, input visible state untouched, boundary values re-imposed, transient term re-derived (scalar and per-cell alpha), fixed-point probe (steady solution reproduced by a transient step for dt over 12 decades) with conditioning guard, sampled dt->0 / dt->inf limits. O(dt^2) agreement not claimed."),
}
na = {
 "C01": "pure function of (grid, coefficient fields, field, dt): no schedule, shared state, seam or fault can change its truth; deciding it needs property-based/metamorphic testing or proof, which this task's technique family excludes",
 "C02": "convergence order under refinement is numerical analysis of a pure map; nothing to schedule or fault-inject",
 "C05": "algebraic identity between two pure operator formulations on every field; pure function of input",
 "C06": "pure operator applied to constant fields; no history, seam or fault involved",
 "C07": "sign structure of assembled rows; repeated steps are repeated application of one pure map, not a history with choices",
 "C08": "metamorphic relation between solutions of two pure computations on different grids",
 "C10": "constructor arithmetic (cell sizes, centres, volumes) is a pure function of the face positions",
 "C11": "averaging formulas are pure functions of a cell array and a velocity sign pattern",
 "C13": "flux-limiter formulas are pure scalar functions of r",
 "C16": "finite class x label x arity matrix to be enumerated completely; enumeration of inputs is not seeded search over schedules or faults (its error paths are used as fault kinds only)",
 "C17": "metamorphic unit rescaling of a pure computation",
}
checks=[]
for pid,(ref,text) in props.items():
    checks.append({
      "property_id": pid,
      "quick_cmd": "/venv/bin/python /verif/check.py --property %s --tier quick" % pid,
      "thorough_cmd": "/venv/bin/python /verif/check.py --property %s --tier thorough" % pid,
      "evidence_file": "/verif/evidence/%s.json" % pid,
      "replay_cmd_template": "/venv/bin/python /verif/check.py --replay {path}",
      "engine": "dst",
      "level_claimed": {"category": "exploration", "text": text, "design_ref": ref},
      "level_note": "Trusted base: scipy/numpy; dst/adapter.py's reading of private attribute names; the public constructors used to build the fresh twin; random search over bounded histories (<=60 ops quick, <=200 thorough, <=5 cells per axis) - a clean batch is evidence, not proof.",
      "technique": "deterministic simulation with fault injection: seeded scheduler over simulated user tasks, reference model + fresh-twin oracle, ddmin-minimised replay files",
    })
m = {
 "version": 1,
 "setup_cmd": "/venv/bin/python /verif/check.py --setup",
 "hooks": {"guard": "PYFVTOOL_VERIF", "enable": "no hooks were needed: every seam (externalsolver argument, module and object attributes) is reachable from Python; checks import /repo/src directly (PYFVTOOL_SRC overrides for scratch copies)",
           "baseline_off_cmd": "cd /repo && /venv/bin/python -m pytest -ra -q -p no:cacheprovider --timeout=900 --continue-on-collection-errors",
           "source_commits": [], "add_only": True},
 "engines": [{"name": "dst", "path": "/verif/dst", "serves_properties": sorted(props),
              "kind_free_text": "in-process deterministic simulator: pools of real PyFVTool objects, reference model of visible state, seeded task scheduler, fault injection at the externalsolver seam and at documented error paths, invariants I1-I8, ddmin shrinker, JSON replay"}],
 "checks": checks,
 "not_applicable": [{"property_id": k, "reason": v} for k,v in na.items()],
 "notes": "All six claimed checks share one engine; a check gates on the invariants owned by its property and records violations of other properties as notes. known_findings.json lists fixed/known defects.",
}
json.dump(m, open('/verif/MANIFEST.json','w'), indent=1)
