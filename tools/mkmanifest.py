import json
props = {
 "C09": ("DESIGN.md 3 (I3, I1), 4 C09",
   "Seeded search over operation histories (edits in every supported spelling, sharing, copies, algebra, both solvers, apply_BCs, injected call failures) interleaved by a seeded scheduler over 1-5 simulated user tasks; after every op a behavioural shadow solve (deepcopy of the variable with all hidden state, then one implicit and one explicit solve) must equal the same solves on a freshly constructed variable built from the visible state; bounded liveness after the last fault; injected failures at three seams (external solver argument, module-level default solver, allocation failure inside apply_BCs) and at documented error paths; edits must have the effect of the same numpy operation. Besides the random histories a stratified batch covers grid class x every history of <=2 (quick: sample, thorough: all 8 928) and <=3 letters (quick: sample, thorough: all 277 047) over a 31-letter edit/solve/fault alphabet on two variables sharing one BC object (DESIGN 13.1). Exploration, not proof: the history space is unbounded and sampled."),
 "C14": ("DESIGN.md 3 (I2, I1, I8), 4 C14",
   "Seeded histories in which operator/eval/copy results become operands and targets of later edits by other tasks: per-op numpy reference for values, value-copy reference for BCs, fresh-twin reference for ghost values, byte-level frame condition on every other pool object after every later op, alias scan at creation; copy() must reproduce the full array incl. ghost cells and behave equally in a shadow solve; a failing *eval must leave its operands editable. A stratified batch covers {cell,face} x every operator / reflected operator / *eval arity / copy x operand kinds x all 9 grid classes (1 098 cells, all of them in every quick run), each followed by later edits of result and operands. Exploration over expression trees and later-modification histories."),
 "C15": ("DESIGN.md 3 (I1, I7, I8), 4 C15",
   "Every public builder and solver runs inside shared-object histories; byte snapshots of the whole pool around every call (frame condition), rebuild of recorded calls must be bit-identical, recorded op lists re-executed in four fresh interpreters under different hash seeds must give identical per-event digests (part of every run of the check), alias scan of every returned object against mesh/input storage, in-place scribbles on returned objects must leave everything else unchanged, canary meshes monitor process-global state; builders may not even refresh derived state (ghost cells, cached boundary term) of their arguments; the caller's term list is not mutated; the solution of a solve depends on the current values of its inputs only (stored term objects reused across steps and edited in place). A stratified batch runs every public builder x all 9 grid classes (207 cells, all in every quick run: build, rebuild, scribble, rebuild, reuse in three solves, edit inputs, build again). Exploration."),
 "C03": ("DESIGN.md 3 (I4), 4 C03",
   "History clause decided by simulation: after each of the four ghost-recomputing operations at any point of any edit history the target's ghost layer satisfies the *latest* (a,b,c)/periodic flags (formula written independently of boundary.py incl. 1/r and 1/(r sin theta)), wraps exactly on periodic axes and only there, plot profile edges are face averages and the solver's boundary rows give c on the full array. After apply_BCs (also as the documented remedy for edits the tracking cannot see) a shadow solve checks the solver rows too; (a,b,c) x non-zero factor (scalar or per face, either sign) must leave fresh and historical solutions unchanged. A stratified batch covers class x periodic pattern per axis {none, low flag, high flag, both} x {Dirichlet, Neumann, Robin} per side: all 1 998 cells of the 1-D/2-D classes in every quick run, the 69 984 3-D cells sampled (quick) / complete (thorough). In 30% of the random runs and in every stratified run solvePDE / solveExplicitPDE are also executed on a deep copy of every affected variable after every op (shadow solves) and judged by the same relations. Spacing and coefficient values are sampled."),
 "C04": ("DESIGN.md 3 (I5), 4 C04",
   "At every solvePDE of every history: returned object identity, independent assembly (fresh BC term + signed/scaled term list) with backward-residual comparison, solveMatrixPDE equivalence, ghost-row leak test of every emitted term, and the external-solver seam via a recording fake (identical system in, returned vector stored, exactly one call; fake may raise or return a wrong shape). Shadow solves on deep copies after every op (30% of random runs, all stratified runs) apply the same assembly oracle at every point of a history. A stratified batch covers ordered lists of 1..3 distinct term variants x 4 solver-seam modes x 9 classes (5 616 cells; quick: sample, thorough: all). Linearity is not checked separately (it follows from assembly + independent BC relation + re-derived transient part); completeness over all term combinations not claimed."),
 "C12": ("DESIGN.md 3 (I6), 4 C12",
   "Stepping semantics over multi-step histories: explicit update formula, input visible state untouched, boundary values re-imposed, transient term re-derived (scalar and per-cell alpha), fixed-point probe (steady solution reproduced by a transient step for dt over 12 decades) with conditioning guard, sampled dt->0 / dt->inf limits; the caller's RHS vector untouched; the explicit result keeps following its input's BoundaryConditions object; boundary values of explicit results judged by the independent BC relation; update_value takes the source's cell values over; shadow implicit and explicit steps on deep copies after every op (30% of random runs, all stratified runs). A stratified batch covers class x alpha {scalar, field} x 12 dt decades x {implicit, explicit, split, fixed-point+limits} (864 cells, all in every quick run). O(dt^2) agreement not claimed."),
}
na = {
 "C01": "pure function of (grid, coefficient fields, field, dt): no schedule, shared state, seam or fault can change its truth; deciding it needs property-based/metamorphic testing or proof, which this task's technique family excludes",
 "C02": "convergence order under refinement is numerical analysis of a pure map; nothing to schedule or fault-inject",
 "C05": "algebraic identity between two pure operator formulations on every field; pure function of input",
 "C06": "pure operator applied to constant fields; no history, seam or fault involved",
 "C07": "sign structure of assembled rows; repeated steps are repeated application of one pure map, not a history with choices",
 "C08": "metamorphic relation between solutions of two pure computations on different grids",
 "C10": "constructor arithmetic (cell sizes, centres, volumes) is a pure function of the face positions",
 "C11": "averaging formulas are pure functions of a cell array and a velocity sign pattern",
 "C13": "flux-limiter formulas are pure scalar functions of r",
 "C16": "finite class x label x arity matrix to be enumerated completely; enumeration of inputs is not seeded search over schedules or faults (its error paths are used as fault kinds only)",
 "C17": "metamorphic unit rescaling of a pure computation",
}
checks=[]
for pid,(ref,text) in props.items():
    checks.append({
      "property_id": pid,
      "quick_cmd": "/venv/bin/python /verif/check.py --property %s --tier quick" % pid,
      "thorough_cmd": "/venv/bin/python /verif/check.py --property %s --tier thorough" % pid,
      "evidence_file": "/verif/evidence/%s.json" % pid,
      "replay_cmd_template": "/venv/bin/python /verif/check.py --replay {path}",
      "engine": "dst",
      "level_claimed": {"category": "exploration", "text": text, "design_ref": ref},
      "level_note": "Trusted base: scipy/numpy; dst/adapter.py's reading of private attribute names; the public constructors used to build the fresh twin; random search over bounded histories (<=60 ops quick, <=200 thorough, <=5 cells per axis) plus stratified seeds over the finite strata of DESIGN 13.1 - a clean batch is evidence, not proof.",
      "technique": "deterministic simulation with fault injection: seeded scheduler over simulated user tasks plus index-decoded stratified runs, injected call failures at the solver seam and documented error paths, reference model + fresh-twin oracle, ddmin-minimised JSON replay files",
    })
m = {
 "version": 1,
 "setup_cmd": "/venv/bin/python /verif/check.py --setup",
 "hooks": {"guard": "PYFVTOOL_VERIF", "enable": "no hooks were needed: every seam (externalsolver argument, module and object attributes) is reachable from Python; checks import /repo/src directly (PYFVTOOL_SRC overrides for scratch copies)",
           "baseline_off_cmd": "cd /repo && /venv/bin/python -m pytest -ra -q -p no:cacheprovider --timeout=900 --continue-on-collection-errors",
           "source_commits": [], "add_only": True},
 "engines": [{"name": "dst", "path": "/verif/dst", "serves_properties": sorted(props),
              "kind_free_text": "in-process deterministic simulator: pools of real PyFVTool objects, reference model of visible state, seeded task scheduler, fault injection at the externalsolver seam and at documented error paths, stratified plans (dst/strat.py), invariants I1-I8, ddmin shrinker, JSON replay"}],
 "checks": checks,
 "not_applicable": [{"property_id": k, "reason": v} for k,v in na.items()],
 "notes": "All six claimed checks share one engine; a check gates on the invariants owned by its property and records violations of other properties as notes. known_findings.json lists fixed/known defects.",
}
json.dump(m, open('/verif/MANIFEST.json','w'), indent=1)
