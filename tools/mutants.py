#!/venv/bin/python
"""Sensitivity / soundness self-test of the checks (DESIGN.md 2.6).

For every entry of MUTANTS a scratch copy of /repo/src is made under /tmp,
one source mutation is applied, and the quick check of each listed property is
run against it through PYFVTOOL_SRC.  `expect` = "caught": some listed check
must exit 1 with a VIOLATION line.  `expect` = "silent": behaviour-preserving
refactor, every listed check must exit 0.  The scratch copy is removed
afterwards.  Results: tools/mutants_result.json (+ a table on stdout).

usage: mutants.py [--only NAME[,NAME]] [--jobs N] [--list]
"""
import argparse
import json
import os
import shutil
import subprocess
import sys
import tempfile
import time
from concurrent.futures import ThreadPoolExecutor

HERE = os.path.dirname(os.path.abspath(__file__))
VERIF = os.path.dirname(HERE)
SRC = "/repo/src"

B = "pyfvtool/boundary.py"
C = "pyfvtool/cell.py"
P = "pyfvtool/pdesolver.py"
U = "pyfvtool/utilities.py"
F = "pyfvtool/face.py"
S = "pyfvtool/source.py"
AD = "pyfvtool/advection.py"
AV = "pyfvtool/averaging.py"

# name, file, old, new, properties whose checks are run, expectation, count (occurrence index or 'all')
MUTANTS = [
    # ---------------------------------------------------------------- C09
    ("periodic-setter-no-dirty", B, "        self.modified = True\n        self._periodic = bool(val)",
     "        self._periodic = bool(val)", ["C09"], "caught"),
    ("coef-setter-rebinds", B, "    def c(self, val):\n        self._c[:] = val",
     "    def c(self, val):\n        self._c = TrackedArray(np.array(np.broadcast_to(val, self._c.shape), dtype=float))",
     ["C09"], "caught"),
    ("setitem-no-base-propagation", U,
     "        self._modified = True\n        if self.base is not None and isinstance(self.base, TrackedArray):\n            self.base._modified = True",
     "        self._modified = True", ["C09"], "caught"),
    ("face-modified-reads-only-a", B,
     "        change = self._a.modified\\\n                 or self._b.modified\\\n                 or self._c.modified",
     "        change = self._a.modified", ["C09"], "caught"),
    ("bcs-modified-omits-front-back", B,
     "                or self.top.modified or self.bottom.modified\\\n                or self.front.modified or self.back.modified)",
     "                or self.top.modified or self.bottom.modified)", ["C09"], "caught"),
    ("apply-keeps-old-cache", C,
     "        if self.BCsTerm_precalc:\n            self._BCsTerm = boundaryConditionsTerm(self.BCs)\n \n",
     "        if self.BCsTerm_precalc and not hasattr(self, '_BCsTerm'):\n            self._BCsTerm = boundaryConditionsTerm(self.BCs)\n \n",
     ["C09", "C04"], "caught"),
    ("solve-ignores-bc-bits", P,
     "    if phi.BCs.modified or phi.value.modified\\\n       or phi._BCs_epoch != phi.BCs._epoch:\n        phi.apply_BCs()\n    \n    # Construct BCs Term",
     "    if phi.value.modified\\\n       or phi._BCs_epoch != phi.BCs._epoch:\n        phi.apply_BCs()\n    \n    # Construct BCs Term",
     ["C09", "C04"], "caught"),
    ("copy-shares-bcs", C,
     "        return CellVariable(self.domain, np.copy(self._value),\n                            deepcopy(self.BCs))",
     "        return CellVariable(self.domain, np.copy(self._value),\n                            self.BCs)",
     ["C09", "C14"], "caught"),
    ("update-value-no-dirty", C,
     "        np.copyto(self._value, new_cell._value)\n        self._value.modified = True",
     "        np.copyto(self._value, new_cell._value)", ["C09"], "silent"),
    # ^ equivalent for C09: a solve result never depends on the stored values or
    #   ghost layer of the variable (only on the cached boundary term), so the
    #   value dirty bit cannot make "the next solve" differ from a fresh start
    ("epoch-never-bumped", C, "            self.BCs._epoch += 1", "            pass", ["C09", "C04"], "caught"),
    ("explicit-ignores-dirty", P,
     "    if phi_old.BCs.modified or phi_old.value.modified\\\n       or phi_old._BCs_epoch != phi_old.BCs._epoch:\n        phi_old.apply_BCs()\n",
     "", ["C09"], "silent"),   # result applies BCs itself; input's ghosts are derived state
    ("explicit-result-no-cache", P, "    phi.BCsTerm_precalc = True # result must remain usable by solvePDE\n", "",
     ["C09"], "caught"),
    ("value-setter-bypasses-tracking", C,
     "        if issubclass(type(self.domain), Grid1D):\n            self._value[1:-1] = values\n",
     "        if issubclass(type(self.domain), Grid1D):\n            np.copyto(np.asarray(self._value)[1:-1], values)\n",
     ["C09"], "silent"),   # equivalent for C09, same reason as update-value-no-dirty
    # ---------------------------------------------------------------- C14
    ("add-in-place", C,
     "    def __add__(self, other):\n        if type(other) is CellVariable:\n            return CellVariable(self.domain, \n                                self.value + other.value,",
     "    def __add__(self, other):\n        if type(other) is CellVariable:\n            self.value += other.value\n            return CellVariable(self.domain, \n                                self.value,",
     ["C14"], "caught"),
    ("rsub-swapped", C, "                                other - self.value,",
     "                                self.value - other,", ["C14"], "caught"),
    ("gt-is-ge", C, "                                self.value>other,", "                                self.value>=other,",
     ["C14"], "caught"),
    ("mul-shares-bcs", C,
     "                                self.value * other.value,\n                                deepcopy(self.BCs))\n        else:\n            return CellVariable(self.domain, \n                                self.value * other,\n                                deepcopy(self.BCs))\n\n    def __rmul__",
     "                                self.value * other.value,\n                                self.BCs)\n        else:\n            return CellVariable(self.domain, \n                                self.value * other,\n                                deepcopy(self.BCs))\n\n    def __rmul__",
     ["C14"], "caught"),
    ("copy-aliases-values", C,
     "        return CellVariable(self.domain, np.copy(self._value),",
     "        return CellVariable(self.domain, self._value,", ["C14", "C09"], "caught"),
    ("funceval-drops-third-arg", C,
     "                            f(args[0].value, \n                              args[1].value, \n                              args[2].value),",
     "                            f(args[0].value, \n                              args[1].value, \n                              args[1].value),",
     ["C14"], "caught"),
    ("face-mul-mixes-components", F,
     "            return FaceVariable(self.domain, self._xvalue*other._xvalue,\n                                self._yvalue*other._yvalue,",
     "            return FaceVariable(self.domain, self._xvalue*other._xvalue,\n                                self._yvalue*self._yvalue,",
     ["C14"], "caught"),
    ("face-neg-returns-self-arrays", F,
     "        return FaceVariable(self.domain, -self._xvalue,\n                            -self._yvalue,\n                            -self._zvalue)",
     "        np.negative(self._xvalue, out=self._xvalue)\n        return FaceVariable(self.domain, self._xvalue,\n                            -self._yvalue,\n                            -self._zvalue)",
     ["C14"], "caught"),
    ("result-bcs-from-right-operand", C,
     "    def __sub__(self, other):\n        if type(other) is CellVariable:\n            return CellVariable(self.domain,\n                                self.value - other.value,\n                                deepcopy(self.BCs))",
     "    def __sub__(self, other):\n        if type(other) is CellVariable:\n            return CellVariable(self.domain,\n                                self.value - other.value,\n                                deepcopy(other.BCs))",
     ["C14"], "caught"),
    # ---------------------------------------------------------------- C15
    ("upwind-minmax-no-copy", AD,
     "    if issubclass(type(u.domain), Grid1D):\n        ux_min = np.copy(u._xvalue)\n        ux_max = np.copy(u._xvalue)",
     "    if issubclass(type(u.domain), Grid1D):\n        ux_min = u._xvalue\n        ux_max = np.copy(u._xvalue)",
     ["C15"], "caught"),
    ("facelocations-1d-alias", F, "        X._xvalue = np.copy(m.facecenters._x)", "        X._xvalue = m.facecenters._x",
     ["C15"], "caught"),
    ("solve-accumulates-into-term", P,
     "            M += Mterm\n            RHS += RHSterm",
     "            M += Mterm\n            RHSterm += RHS\n            RHS = RHSterm",
     ["C15"], "caught"),
    # bookkeeping finished before the cached boundary term is rebuilt: invisible unless the
    # rebuild fails (allocation failure inside apply_BCs) and the program carries on
    ("apply-clears-flags-before-cache-rebuild", C,
     "        if self.BCsTerm_precalc:\n            self._BCsTerm = boundaryConditionsTerm(self.BCs)\n \n        # The BCs object may be shared with other CellVariables: count each\n        # consumed modification, so that they can tell their cache is stale.\n        if self.BCs.modified:\n            self.BCs._epoch += 1\n        self._BCs_epoch = self.BCs._epoch\n        self.BCs.modified = False\n        self.value.modified = False\n",
     "        if self.BCs.modified:\n            self.BCs._epoch += 1\n        self._BCs_epoch = self.BCs._epoch\n        self.BCs.modified = False\n        self.value.modified = False\n        if self.BCsTerm_precalc:\n            self._BCsTerm = boundaryConditionsTerm(self.BCs)\n",
     ["C09"], "caught"),
    # the boundary system is put into the caller's term list (which a time loop reuses)
    ("solve-inserts-bc-term-into-callers-list", P,
     "    M = Mbc.copy() # need to copy, so that original 'bcterm' is protected\n    RHS = RHSbc.copy() # need to copy, so that original 'bcterm' is protected",
     "    eqnterms.insert(0, (Mbc.copy(), RHSbc.copy()))\n    M = 0*Mbc\n    RHS = 0*RHSbc",
     ["C15"], "caught"),
    # assembly order depends on the per-process string hash: same bytes within one
    # interpreter, other rounding in the next one
    ("terms-summed-in-hash-order", P,
     "    for term in eqnterms:\n        if isinstance(term, tuple):",
     "    for term in sorted(eqnterms, key=lambda t: hash(repr(type(t)) + str(getattr(t, 'nnz', 1)) + str(getattr(t, 'ndim', 0)))):\n        if isinstance(term, tuple):",
     ["C15"], "caught"),
    # a builder that lazily refreshes its argument: the next builder call with the
    # same visible inputs returns something else
    ("gradient-applies-bcs-on-dirty-input", "pyfvtool/calculus.py",
     "    # calculates the gradient of a variable\n    # the output is a face variable\n    if issubclass(type(phi.domain), Grid1D):\n        dx = 0.5*(phi.domain.cellsize._x[0:-1]+phi.domain.cellsize._x[1:])\n        return FaceVariable(phi.domain,\n                     (phi._value[1:]-phi._value[0:-1])/dx,",
     "    # calculates the gradient of a variable\n    # the output is a face variable\n    if phi.BCs.modified or phi.value.modified:\n        phi.apply_BCs()\n    if issubclass(type(phi.domain), Grid1D):\n        dx = 0.5*(phi.domain.cellsize._x[0:-1]+phi.domain.cellsize._x[1:])\n        return FaceVariable(phi.domain,\n                     (phi._value[1:]-phi._value[0:-1])/dx,",
     ["C15"], "caught"),
    ("gradient-fixedbc-overwrites-input-ghosts", "pyfvtool/calculus.py",
     "    faceGrad = gradientTerm(phi)\n    if issubclass(type(phi.domain), Grid1D):",
     "    if issubclass(type(phi.domain), Grid1D):\n        phi._value[0] = phi._value[1]\n    faceGrad = gradientTerm(phi)\n    if issubclass(type(phi.domain), Grid1D):",
     ["C15"], "caught"),
    ("explicit-updates-input", P,
     "    x = phi_old._value + dt*RHS.reshape(phi_old._value.shape)",
     "    phi_old._value += dt*RHS.reshape(phi_old._value.shape)\n    x = phi_old._value",
     ["C15", "C12"], "caught"),
    # ---------------------------------------------------------------- C03
    ("3d-z-ghost-reads-y-flags", B,
     "    if (not BC.back.periodic) and (not BC.front.periodic):\n        # front boundary",
     "    if (not BC.bottom.periodic) and (not BC.top.periodic):\n        # front boundary",
     ["C03"], "caught"),
    ("polar-top-ghost-drops-r", B,
     "        phiBC[i,j]= (BC.top.c-phi[:,-1]*(-BC.top.a/(dy_end*rp)+BC.top.b/2))/(BC.top.a/(dy_end*rp)+BC.top.b/2)",
     "        phiBC[i,j]= (BC.top.c-phi[:,-1]*(-BC.top.a/(dy_end)+BC.top.b/2))/(BC.top.a/(dy_end)+BC.top.b/2)",
     ["C03"], "caught"),
    ("explicit-no-bc-reimposed", P,
     "    phi.BCsTerm_precalc = True # result must remain usable by solvePDE\n    phi.apply_BCs()\n    return phi",
     "    phi.BCsTerm_precalc = True # result must remain usable by solvePDE\n    phi._BCsTerm = phi_old._BCsTerm\n    return phi",
     ["C03", "C12"], "caught"),
    ("plotprofile-wrong-pair", C,
     "            phi0[:, -1] = 0.5*(phi0[:, -1]+phi0[:, -2])",
     "            phi0[:, -1] = 0.5*(phi0[:, -2]+phi0[:, -3])", ["C03"], "caught"),
    ("1d-periodic-needs-both-flags", B,
     "    if (not BC.left.periodic) and (not BC.right.periodic):\n        phiBC = np.hstack([(BC.left.c.item()",
     "    if (not BC.left.periodic) or (not BC.right.periodic):\n        phiBC = np.hstack([(BC.left.c.item()",
     ["C03"], "caught"),
    # ---------------------------------------------------------------- C04
    ("bare-vector-subtracted", P, "        elif term.ndim == 1:\n            RHS += term",
     "        elif term.ndim == 1:\n            RHS -= term", ["C04"], "caught"),
    ("tuple-adds-only-matrix", P, "            M += Mterm\n            RHS += RHSterm", "            M += Mterm",
     ["C04", "C12"], "caught"),
    ("externalsolver-ignored", P,
     "    if externalsolver is None:\n        solver = spsolve\n    else:\n        solver = externalsolver\n\n    if phi.BCs.modified",
     "    solver = spsolve\n\n    if phi.BCs.modified", ["C04"], "caught"),
    ("solve-returns-copy", P, "    phi.apply_BCs()\n    \n    return phi\n", "    phi.apply_BCs()\n    \n    return phi.copy()\n",
     ["C04"], "caught"),
    ("externalsolver-gets-transposed-copy", P,
     "    phi_new_values = solver(M, RHS)",
     "    phi_new_values = solver(M, RHS) if externalsolver is None else solver(M.tocsc().tocsr()*1.0000001, RHS)",
     ["C04"], "caught"),
    ("linear-source-leaks-into-ghost-row", S,
     "        row_index = G[1:Nx+1]  # main diagonal (only internal cells)\n        return csr_array((AP_diag, (row_index, row_index)),",
     "        row_index = G[1:Nx+1]  # main diagonal (only internal cells)\n        return csr_array((np.hstack([AP_diag, AP_diag[-1:]]), (np.hstack([row_index, G[Nx+1:Nx+2]]), np.hstack([row_index, G[Nx+1:Nx+2]]))),",
     ["C04"], "caught"),
    ("dirichlet-fastpath-assumes-b-one", B,
     "    else:\n        phiBC = np.hstack([phi[-1], phi, phi[0]])\n    return phiBC",
     "        if BC.left.a.item() == 0:\n            phiBC[0] = 2*BC.left.c.item() - phi[0]\n    else:\n        phiBC = np.hstack([phi[-1], phi, phi[0]])\n    return phiBC",
     ["C03"], "caught"),
    # ---------------------------------------------------------------- C12
    ("transient-drops-alpha-rhs", S,
     "    return linearSourceTerm(a/dt), constantSourceTerm(a*phi/dt)",
     "    return linearSourceTerm(a/dt), constantSourceTerm(phi/dt)", ["C12"], "caught"),
    ("explicit-dt-squared", P,
     "    x = phi_old._value + dt*RHS.reshape(phi_old._value.shape)",
     "    x = phi_old._value + dt*dt*RHS.reshape(phi_old._value.shape)", ["C12"], "caught"),
    ("transient-field-alpha-uses-mean", S,
     "    else:\n        a = alpha\n    return",
     "    else:\n        a = CellVariable(phi.domain, float(np.mean(alpha.value)), BoundaryConditions(phi.domain))\n    return",
     ["C12"], "caught"),
    # --------------------------------------------- found only by fault injection
    ("cached-bc-system-not-copied", P,
     "    M = Mbc.copy() # need to copy, so that original 'bcterm' is protected\n    RHS = RHSbc.copy() # need to copy, so that original 'bcterm' is protected",
     "    M = Mbc\n    RHS = RHSbc", ["C09", "C04", "C12", "C15"], "caught"),
    # ^ harmless on every successful solve (the closing apply_BCs() rebuilds the
    #   cache); manifests only when the solve fails after accumulation
    # ------------------------------------------- behaviour-preserving refactors
    ("SILENT-never-clear-bits", C,
     "        self.BCs.modified = False\n        self.value.modified = False\n        \n        \n    def update_value",
     "        \n        \n    def update_value", ["C09", "C04", "C03"], "silent"),
    ("SILENT-always-apply-before-solve", P,
     "    if phi.BCs.modified or phi.value.modified\\\n       or phi._BCs_epoch != phi.BCs._epoch:\n        phi.apply_BCs()\n    \n    # Construct BCs Term",
     "    phi.apply_BCs()\n    \n    # Construct BCs Term", ["C09", "C04", "C15"], "silent"),
    ("SILENT-no-copy-of-cached-bc-system", P,
     "    M = Mbc.copy() # need to copy, so that original 'bcterm' is protected\n    RHS = RHSbc.copy() # need to copy, so that original 'bcterm' is protected",
     "    M = Mbc\n    RHS = RHSbc + 0.0", ["C09", "C04", "C15"], "silent"),
    ("SILENT-cache-before-ghosts", C,
     "        self._value = TrackedArray(cellValuesWithBoundaries(self.value,\n                                                            self.BCs))\n        if self.BCsTerm_precalc:\n            self._BCsTerm = boundaryConditionsTerm(self.BCs)\n",
     "        if self.BCsTerm_precalc:\n            self._BCsTerm = boundaryConditionsTerm(self.BCs)\n        self._value = TrackedArray(cellValuesWithBoundaries(self.value,\n                                                            self.BCs))\n",
     ["C09", "C03"], "silent"),
    # a copy whose ghost layer is recomputed is not "equal" to an original whose
    # ghost cells are not what its BCs dictate (plotprofile / means / gradient of
    # the two differ): must be caught (was on the must-stay-silent list at first)
    ("copy-refreshes-ghosts", C,
     "        return CellVariable(self.domain, np.copy(self._value),\n                            deepcopy(self.BCs))",
     "        c = CellVariable(self.domain, np.copy(self._value),\n                         deepcopy(self.BCs))\n        c.apply_BCs()\n        return c",
     ["C14"], "caught"),
    ("SILENT-fresh-bcterm-each-solve", P,
     "    Mbc, RHSbc = phi._BCsTerm\n",
     "    from .boundary import boundaryConditionsTerm as _bct\n    Mbc, RHSbc = _bct(phi.BCs)\n", ["C09", "C04", "C15"], "silent"),
    # the explicit solver's result must keep following the BoundaryConditions object of
    # its input (chained loops edit that object between steps); on the must-stay-silent
    # list until three independent sub-agents delivered it as a C12 defect (DESIGN 13.2)
    ("explicit-new-bcs-object", P,
     "    phi = CellVariable(phi_old.domain, 0.0, phi_old.BCs, \n                       BCsTerm_precalc = False)",
     "    import copy as _copy\n    phi = CellVariable(phi_old.domain, 0.0, _copy.deepcopy(phi_old.BCs), \n                       BCsTerm_precalc = False)",
     ["C12"], "caught"),
]


def apply_mutant(root, m):
    name, rel, old, new = m[0], m[1], m[2], m[3]
    p = os.path.join(root, rel)
    s = open(p).read()
    n = s.count(old)
    if n == 0:
        raise RuntimeError("mutant %s: pattern not found in %s" % (name, rel))
    s = s.replace(old, new, 1 if name not in ("3d-z-ghost-reads-y-flags",) else n)
    open(p, "w").write(s)
    return n


def run_one(m, tier_args):
    name, rel, old, new, props, expect = m[:6]
    tmp = tempfile.mkdtemp(prefix="mut_", dir="/tmp")
    res = {"name": name, "expect": expect, "checks": {}}
    try:
        shutil.copytree(os.path.join(SRC, "pyfvtool"), os.path.join(tmp, "pyfvtool"),
                        ignore=shutil.ignore_patterns("__pycache__"))
        try:
            apply_mutant(tmp, m)
        except RuntimeError as e:
            res["error"] = str(e)
            return res
        # the mutated package must still import
        env = dict(os.environ, PYFVTOOL_SRC=tmp, VERIF_REPLAY_DIR=os.path.join(tmp, "_replays"))
        p = subprocess.run(["/venv/bin/python", "-c",
                            "import sys; sys.path.insert(0, %r); import pyfvtool" % tmp],
                           capture_output=True, text=True, env=env)
        if p.returncode != 0:
            res["error"] = "does not import: " + p.stderr[-300:]
            return res
        for prop in props:
            t0 = time.time()
            p = subprocess.run(["/venv/bin/python", os.path.join(VERIF, "check.py"),
                                "--property", prop, "--tier", "quick", "--no-evidence",
                                "--workers", "4"] + tier_args,
                               capture_output=True, text=True, env=env, timeout=3600)
            viol = [l for l in p.stdout.splitlines() if l.startswith("violation class")]
            res["checks"][prop] = {"exit": p.returncode, "wall": round(time.time() - t0, 1),
                                   "classes": [v.split()[2] for v in viol][:4]}
            if p.returncode == 2:
                res["checks"][prop]["stderr"] = p.stderr[-600:]
    finally:
        shutil.rmtree(tmp, ignore_errors=True)
    exits = [c["exit"] for c in res["checks"].values()]
    if expect == "caught":
        res["ok"] = any(e == 1 for e in exits) and not any(e == 2 for e in exits)
    else:
        res["ok"] = all(e == 0 for e in exits)
    return res


def main():
    ap = argparse.ArgumentParser()
    ap.add_argument("--only")
    ap.add_argument("--jobs", type=int, default=4)
    ap.add_argument("--list", action="store_true")
    a = ap.parse_args()
    ms = MUTANTS
    if a.only:
        want = set(a.only.split(","))
        ms = [m for m in MUTANTS if m[0] in want]
    if a.list:
        for m in ms:
            print(m[0], m[4], m[5])
        return 0
    results = []
    with ThreadPoolExecutor(max_workers=a.jobs) as ex:
        for r in ex.map(lambda m: run_one(m, []), ms):
            results.append(r)
            print("%-40s expect=%-6s ok=%s %s" % (
                r["name"], r["expect"], r.get("ok"),
                r.get("error") or {k: (v["exit"], v["classes"][:2]) for k, v in r["checks"].items()}),
                flush=True)
    out = os.path.join(HERE, "mutants_result.json")
    if not a.only:
        json.dump(results, open(out, "w"), indent=1)
    elif os.path.exists(out):
        prev = json.load(open(out))
        byname = {r["name"]: r for r in results}
        merged = [byname.pop(r["name"], r) for r in prev] + list(byname.values())
        json.dump(merged, open(out, "w"), indent=1)
    bad = [r["name"] for r in results if not r.get("ok")]
    print("mutants: %d run, %d as expected, not as expected: %s" % (len(results),
                                                                   len(results) - len(bad), bad))
    return 0 if not bad else 1


if __name__ == "__main__":
    sys.exit(main())
