#!/venv/bin/python
"""Markdown tables for DESIGN.md from tools/mutants_result.json and
seeded/RESULTS.json (+ seeded/*/meta.json)."""
import json
import os

HERE = os.path.dirname(os.path.abspath(__file__))
VERIF = os.path.dirname(HERE)


def seeded_table():
    res = json.load(open(os.path.join(VERIF, "seeded", "RESULTS.json")))
    print("| id | breaks | needs to manifest | caught by (quick tier) | first violation class of its own check |")
    print("|----|--------|-------------------|------------------------|------------------------------------------|")
    for r in res:
        meta = json.load(open(os.path.join(VERIF, "seeded", r["id"], "meta.json")))
        own = r["checks"].get(r["property"], {})
        cls = (own.get("classes") or ["-"])[0]
        print("| %s | %s | %s | %s | `%s` |" % (r["id"], r["property"], meta.get("needs", ""),
                                               ", ".join(r.get("caught_by", [])) or "**none**", cls))


def mutant_table():
    res = json.load(open(os.path.join(HERE, "mutants_result.json")))
    print("| mutant | expectation | checks run: exit (first class) | as expected |")
    print("|--------|-------------|--------------------------------|-------------|")
    for r in res:
        cells = []
        for p, c in r.get("checks", {}).items():
            cells.append("%s: %d%s" % (p, c["exit"], (" `" + c["classes"][0] + "`") if c["classes"] else ""))
        print("| %s | %s | %s | %s |" % (r["name"], r["expect"], "; ".join(cells) or r.get("error", ""),
                                        "yes" if r.get("ok") else "**NO**"))


def silent_table():
    res = json.load(open(os.path.join(VERIF, "silent", "RESULTS.json")))
    print("| id | area | diff | checks run: exit | all silent |")
    print("|----|------|------|------------------|------------|")
    for r in res:
        meta = json.load(open(os.path.join(VERIF, "silent", r["id"], "meta.json")))
        cells = ["%s: %d%s" % (p, c["exit"], (" `" + c["classes"][0] + "`") if c["classes"] else "")
                 for p, c in r.get("checks", {}).items()]
        print("| %s | %s | %s | %s | %s |" % (r["id"], meta.get("area", ""),
                                            meta["validated"].get("diffstat", ""), "; ".join(cells),
                                            "yes" if r.get("silent") else "**NO**"))


if __name__ == "__main__":
    import sys
    if len(sys.argv) > 1 and sys.argv[1] == "mutants":
        mutant_table()
    elif len(sys.argv) > 1 and sys.argv[1] == "silent":
        silent_table()
    else:
        seeded_table()
