"""Seeded generation: simulated user tasks and the scheduler that interleaves
them.  Everything is drawn from ONE random.Random(seed); generation is online
(tasks look at the world's pools) and every emitted op is a self-contained
JSON object, so the recorded op list alone replays the run."""
import math
import numpy as _np
import random

from . import adapter as A
from .world import BUILDERS, PURE_FUNCS, FLUX_LIMITERS, UPWIND2_CLASSES

ARITH = ("add", "sub", "mul", "div", "pow")
CMP = ("gt", "ge", "lt", "le")
LOGIC = ("and", "or")

TASK_WEIGHTS = {
    "C09": {"implicit": 3, "explicit": 2, "split": 2, "editor": 5, "valedit": 3,
            "cloner": 3, "algebra": 1, "builder": 0.5, "prober": 1},
    "C14": {"algebra": 7, "editor": 2.5, "valedit": 2, "cloner": 3, "scribbler": 2,
            "implicit": 2, "explicit": 1, "facealg": 3, "prober": 0.5},
    "C15": {"builder": 6, "scribbler": 3, "implicit": 2, "explicit": 1.5, "editor": 1,
            "valedit": 1, "algebra": 1, "facealg": 1, "cloner": 1, "prober": 1.5},
    "C03": {"editor": 5, "implicit": 2, "explicit": 2, "cloner": 2, "valedit": 2,
            "algebra": 1, "split": 1, "prober": 2},
    "C04": {"implicit": 5, "builder": 3, "editor": 2, "valedit": 1, "cloner": 1, "algebra": 0.5,
            "split": 1, "scribbler": 1, "prober": 2.5},
    "C12": {"explicit": 3, "split": 2, "implicit": 3, "fixedpoint": 3, "editor": 1.5, "algebra": 1,
            "valedit": 1, "cloner": 1, "prober": 2},
}

ALL_FAULTS = ("alloc_in_apply", "solver_raise", "solver_badshape", "solver_scribble", "solver_nan",
              "singular", "unknown_term", "bad_tuple", "foreign_term", "explicit_badrhs",
              "algebra_mismatch", "eval_raises",
              "radial_periodic", "bad_shape_assign", "partial_utility",
              "update_mismatch")


def swarm_config(rng, prop, tier, faults):
    """Per-run configuration, all drawn from the run's PRNG."""
    dims_bias = rng.choice(("any", "any", "1d", "2d", "3d"))
    classes = list(A.GRID_CLASSES)
    if dims_bias != "any":
        classes = [c for c in classes if A.GRID_NDIM[c] == int(dims_bias[0])]
    ncls = rng.choice((1, 1, 2))
    chosen = [rng.choice(classes) for _ in range(ncls)]
    hi = 60 if tier == "quick" else 200
    steps = rng.randint(10, hi) if rng.random() < 0.8 else rng.randint(6, 14)
    deep = tier != "quick" and rng.random() < 0.08
    if deep:
        steps = rng.randint(200, 400)       # a few long histories with larger pools
    w = dict(TASK_WEIGHTS[prop])
    # swarm: knock out a random subset of task kinds
    for k in list(w):
        if rng.random() < 0.2 and len([x for x in w.values() if x > 0]) > 2:
            w[k] = 0
    ntasks = rng.randint(1, 5)
    enabled_faults = []
    if faults:
        enabled_faults = [f for f in ALL_FAULTS if rng.random() < 0.5]
        if not enabled_faults:
            enabled_faults = [rng.choice(ALL_FAULTS)]
        w["fault"] = rng.choice((1.0, 2.0, 3.0))
    return {
        "classes": chosen, "steps": steps, "weights": w, "ntasks": ntasks,
        "share_bc": rng.random() < 0.7,
        "palette": rng.choice(("real", "real", "ints", "zeros")),
        "maxcells": rng.choice((2, 3, 3, 4)) if tier == "quick" else rng.choice((2, 3, 4, 5)),
        "nonuniform": rng.random() < 0.5,
        "faults": enabled_faults,
        "vmax": rng.choice((4, 6, 8)) if not deep else rng.choice((8, 12)),
        "tmax": 10 if not deep else 16, "fmax": 8 if not deep else 12,
        "periodic_bias": rng.random() < (0.6 if prop == "C03" else 0.35),
        "ext_solver": rng.random() < (0.7 if prop == "C04" else 0.3),
        # scheduling granularity: mean number of consecutive ops one task gets
        "burst": rng.choice((1, 1, 2, 4, 8)),
        "layouts": rng.random() < 0.3,
        # C03 / C04 / C12 / C15: solvePDE on a deep copy of every affected variable after
        # every op, judged by the property's own oracle (costly: a fraction of the runs)
        "shadow": rng.random() < 0.3,
    }


def make_mesh_op(rng, cls, maxcells, nonuniform, out):
    """A mesh op for `cls` drawn from `rng` (shared by the online generator and
    the stratified plans of strat.py)."""
    def r(lo, hi, nd=3):
        return round(rng.uniform(lo, hi), nd)
    nd = A.GRID_NDIM[cls]
    mx = maxcells
    N = [rng.randint(1 if rng.random() < 0.1 else 2, mx) for _ in range(nd)]
    if nd == 3:
        N = [min(n, 3) for n in N]
    a = {"cls": cls}
    radial = cls in A.RADIAL
    if nonuniform and rng.random() < 0.7:
        faces = []
        for ax, n in enumerate(N):
            lo = 0.0
            hi = r(0.8, 2.5, 2)
            ang2pi = (cls in ("PolarGrid2D", "CylindricalGrid3D") and ax == 1) or \
                     (cls == "SphericalGrid3D" and ax == 2)
            angpi = cls == "SphericalGrid3D" and ax == 1
            if ax == 0 and radial and rng.random() < 0.5:
                lo = r(0.2, 1.0, 2)          # offset radial origin
            if ang2pi:
                lo = r(0.0, 1.0, 2) if rng.random() < 0.5 else 0.0
                hi = round(2 * math.pi, 6) if rng.random() < 0.4 else r(1.5, 5.5, 2)
            if angpi:
                lo = r(0.2, 0.6, 2)
                hi = r(1.2, 2.8, 2)
            w = [rng.uniform(0.5, 1.5) for _ in range(n)]
            if rng.random() < 0.3 and n > 1:
                w[-1] = w[0]            # equal end cells on a non-uniform axis
            tot = sum(w)
            acc = lo
            f = [lo]
            for x in w:
                acc += (hi - lo) * x / tot
                f.append(round(acc, 6))
            faces.append(f)
        a.update({"form": "faces", "faces": faces})
    else:
        L = []
        for ax in range(nd):
            ang2pi = (cls in ("PolarGrid2D", "CylindricalGrid3D") and ax == 1) or \
                     (cls == "SphericalGrid3D" and ax == 2)
            angpi = cls == "SphericalGrid3D" and ax == 1
            if ang2pi:
                L.append(round(2 * math.pi, 6) if rng.random() < 0.5 else r(1.0, 5.0, 2))
            elif angpi:
                L.append(r(1.0, 3.0, 2))
            else:
                L.append(r(0.8, 3.0, 2))
        a.update({"form": "NL", "N": N, "L": L})
    return {"k": "mesh", "out": out, "a": a}


class Gen:
    def __init__(self, world, rng, prop, sw):
        self.w = world
        self.rng = rng
        self.prop = prop
        self.sw = sw
        self.counter = {}
        self.tasks = []
        self.queue = []          # setup ops
        self.task_seq = 0
        self.emitted = 0
        self.current = None
        self._setup()

    # ------------------------------------------------------------- utilities
    def fresh(self, p):
        self.counter[p] = self.counter.get(p, 0) + 1
        return "%s%d" % (p, self.counter[p])

    def r(self, lo, hi, nd=3):
        return round(self.rng.uniform(lo, hi), nd)

    def seed(self):
        return self.rng.randrange(1 << 30)

    def vdesc(self, positive=False):
        """A value-array descriptor from the run's palette (sometimes in Fortran
        order or as a non-contiguous view: same values, other memory layout)."""
        d = self._vdesc(positive)
        if self.sw.get("layouts") and self.rng.random() < 0.25:
            d["lay"] = self.rng.choice(("F", "strided"))
        return d

    def _vdesc(self, positive=False):
        rng = self.rng
        pal = self.sw["palette"]
        u = rng.random()
        if u < 0.15:
            return {"d": "const", "x": self.r(0.5, 3.0, 2)}
        if pal == "ints" and not positive:
            return {"d": "ints", "lo": -2, "hi": 2, "s": self.seed()}
        if pal == "zeros" and not positive:
            return {"d": "zmix", "lo": -2.0, "hi": 2.0, "s": self.seed()}
        if u < 0.3:
            return {"d": "ramp", "lo": self.r(0.5, 1.5, 2), "hi": self.r(2.0, 4.0, 2)}
        if positive or rng.random() < 0.6:
            return {"d": "rand", "lo": 0.5, "hi": 3.0, "s": self.seed()}
        return {"d": "rand", "lo": -2.0, "hi": 2.0, "s": self.seed()}

    def scal_or_arr(self, lo, hi):
        if self.rng.random() < 0.5:
            return {"d": "const", "x": self.r(lo, hi, 2), "scalar": True}
        return {"d": "rand", "lo": lo, "hi": hi, "s": self.seed()}

    def names(self, kind):
        return self.w.names(kind)

    def pick(self, kind, pred=None):
        c = [n for n in self.names(kind) if pred is None or pred(self.w.ents[n])]
        return self.rng.choice(c) if c else None

    def emitted_ops(self):
        return self.w.step + 1

    def mesh_of(self, name):
        e = self.w.ents[name]
        return e.name if e.kind == "m" else e.meta["mesh"]

    def nd_of_mesh(self, mname):
        return len(self.w.ents[mname].meta["faces"])

    def cls_of_mesh(self, mname):
        return self.w.ents[mname].meta["cls"]

    def slspec(self, n):
        return [[self.rng.randrange(8), self.rng.randrange(8)] for _ in range(n)]

    # ---------------------------------------------------------------- setup
    def mesh_op(self, cls):
        return make_mesh_op(self.rng, cls, self.sw["maxcells"], self.sw["nonuniform"],
                            self.fresh("m"))

    def regrade_op(self, mname):
        """A second mesh of the same class, cell counts and extents as `mname`
        but with other interior face positions (anything the library keys on
        class / size / extent instead of on the mesh itself shows here)."""
        rng = self.rng
        e = self.w.ents[mname]
        faces = []
        for f in e.meta["faces"]:
            f = [float(x) for x in f]
            n = len(f) - 1
            if n < 2:
                faces.append(f)
                continue
            w = [rng.uniform(0.5, 1.5) for _ in range(n)]
            tot = sum(w)
            acc = f[0]
            g = [f[0]]
            for x in w[:-1]:
                acc += (f[-1] - f[0]) * x / tot
                g.append(round(acc, 6))
            g.append(f[-1])
            faces.append(g)
        return {"k": "mesh", "out": self.fresh("m"),
                "a": {"cls": e.meta["cls"], "form": "faces", "faces": faces, "regraded_from": mname}}

    def _setup(self):
        rng = self.rng
        q = self.queue
        for cls in self.sw["classes"]:
            mop = self.mesh_op(cls)
            q.append(mop)
            m = mop["out"]
            b = self.fresh("b")
            q.append({"k": "bc", "out": b, "a": {"m": m}})
            nv = rng.randint(1, 3)
            for i in range(nv):
                style = rng.random()
                v = self.fresh("v")
                if style < 0.45:
                    q.append({"k": "var", "out": v, "outb": self.fresh("b"),
                              "a": {"m": m, "val": self.vdesc()}})
                elif style < 0.9 or not self.sw["share_bc"]:
                    bb = b if (self.sw["share_bc"] or i == 0) else None
                    if bb is None:
                        bb = self.fresh("b")
                        q.append({"k": "bc", "out": bb, "a": {"m": m}})
                    q.append({"k": "var", "out": v, "a": {"m": m, "val": self.vdesc(), "bc": bb}})
                else:
                    a = {"m": m, "val": self.vdesc(), "ghosts": True, "bc": b}
                    if self.sw["palette"] == "ints" and rng.random() < 0.6:
                        a["val"] = {"d": "ints", "lo": -2, "hi": 2, "s": self.seed()}
                        a["dtype"] = "int"
                    q.append({"k": "var", "out": v, "outb": self.fresh("b"), "a": a})
            q.append({"k": "face", "out": self.fresh("f"),
                      "a": {"m": m, "scalar": self.r(0.5, 2.0, 2)}})
        self.want_regrade = rng.random() < 0.15
        kinds = [k for k, wt in self.sw["weights"].items() if wt > 0]
        wts = [self.sw["weights"][k] for k in kinds]
        for _ in range(self.sw["ntasks"]):
            k = rng.choices(kinds, wts)[0]
            self.tasks.append(TASKS[k](self))

    # ------------------------------------------------------------ scheduling
    def next_op(self):
        """The scheduler: one op per call, chosen by the PRNG."""
        if self.queue:
            return self.queue.pop(0)
        rng = self.rng
        if getattr(self, "want_regrade", False) and self.emitted_ops() > 12 and self.names("m"):
            # mid-run: a regraded twin of the first mesh, with a BC object configured
            # like an existing one and a variable on it
            self.want_regrade = False
            m0 = self.names("m")[0]
            mop = self.regrade_op(m0)
            b = self.fresh("b")
            self.queue += [{"k": "bc", "out": b, "a": {"m": mop["out"]}}]
            cls = self.w.ents[m0].meta["cls"]
            nd = A.GRID_NDIM[cls]
            for sd in [s_ for s_ in A.SIDES if A.SIDE_AXIS[s_] < nd]:
                if rng.random() < 0.7:
                    for coef in "abc":
                        self.queue.append({"k": "bc_edit", "a": {
                            "b": b, "side": sd, "coef": coef, "how": "assign",
                            "val": Editor.coef_val(self, sd, coef), "sl": self.slspec(2)}})
            self.queue.append({"k": "var", "out": self.fresh("v"),
                               "a": {"m": mop["out"], "val": self.vdesc(), "bc": b}})
            return mop
        # pool limits
        for kind, lim in (("v", self.sw["vmax"]), ("t", self.sw["tmax"]),
                          ("f", self.sw["fmax"]), ("d", 3), ("w", 3)):
            ns = self.names(kind)
            if len(ns) > lim:
                prot = set()
                for t in self.tasks:
                    prot |= t.protected()
                cand = [n for n in ns if n not in prot] or ns
                k = min(len(cand), len(ns) - lim + 1)
                victims = rng.sample(cand, k) if rng.random() < 0.5 else cand[:k]
                bcs = [self.w.ents[n].meta.get("bc") for n in victims if kind == "v"]
                return {"k": "drop", "a": {"names": victims + [b for b in bcs if b]}}
        for _ in range(12):
            if self.current is not None and self.sw["burst"] > 1 \
                    and rng.random() < 1.0 - 1.0 / self.sw["burst"]:
                t = self.current
            else:
                t = rng.choice(self.tasks)
            self.current = t
            op = t.next()
            if op is not None:
                op["task"] = t.tid
                return op
        # nothing runnable: add a new task
        kinds = [k for k, wt in self.sw["weights"].items() if wt > 0]
        self.tasks.append(TASKS[rng.choice(kinds)](self))
        return {"k": "drop", "a": {"names": []}}


# ---------------------------------------------------------------------------
# tasks (simulated user scripts)
# ---------------------------------------------------------------------------

class Task:
    kind = "?"

    def __init__(self, g):
        self.g = g
        g.task_seq += 1
        self.tid = "%s#%d" % (self.kind, g.task_seq)
        self.plan = []

    def protected(self):
        return set()

    def next(self):
        if not self.plan:
            self.plan = self.make_plan() or []
        if self.plan:
            return self.plan.pop(0)
        return None

    def make_plan(self):
        return []

    # ---- shared op factories
    def solver_mode(self):
        g = self.g
        rng = g.rng
        f = g.sw["faults"]
        u = rng.random()
        if "solver_raise" in f and u < 0.12:
            return "ext_raise"
        if "solver_badshape" in f and u < 0.2:
            return "ext_badshape"
        if "solver_scribble" in f and u < 0.3:
            return "ext_scribble_raise" if rng.random() < 0.6 else "ext_scribble"
        if "solver_nan" in f and u < 0.35:
            return "ext_nan"
        if g.sw["ext_solver"] and u < 0.5:
            return "ext" if rng.random() < 0.75 else "ext_mark"
        if "solver_raise" in f and u < 0.56:
            return "def_raise"
        if g.sw["ext_solver"] and u < 0.6:
            return "def_record"
        return None


class LoopBase(Task):
    """Owns a solution variable and a set of reusable terms."""

    def __init__(self, g):
        super().__init__(g)
        self.v = None
        self.terms = {}      # role -> term name
        self.D = None
        self.iters = 0
        self.view = None
        self.dt = g.r(0.05, 2.0, 3)      # a time loop normally keeps its step size
        self.alpha = None                # and its storage coefficient (scalar or field)
        # some scripts keep `-diffusionTerm(D)` (and scaled terms) as objects and pass
        # the very same objects, in the same order, to every solvePDE call
        self.stored = g.rng.random() < 0.4
        self.kept = {}                   # role -> name of the stored modified term

    def protected(self):
        s = {self.v} if self.v else set()
        s |= set(self.terms.values())
        s |= set(self.kept.values())
        if isinstance(self.alpha, str):
            s.add(self.alpha)
        if self.view:
            s.add(self.view)
        if self.D:
            s.add(self.D)
        return s

    def ensure_var(self):
        g = self.g
        if self.v is None or self.v not in g.w.ents:
            self.v = g.pick("v")
            self.terms = {}
            self.D = None
        return self.v is not None

    def spatial_plan(self, ops, m=None):
        """Build the reusable spatial terms once (or again with small probability)."""
        g = self.g
        rng = g.rng
        m = m or g.mesh_of(self.v)
        if self.D is None or self.D not in g.w.ents or rng.random() < 0.1:
            self.D = g.fresh("f")
            if rng.random() < 0.5:
                ops.append({"k": "face", "out": self.D, "a": {"m": m, "scalar": g.r(0.3, 2.0, 2)}})
            else:
                ops.append({"k": "face", "out": self.D,
                            "a": {"m": m, "val": [{"d": "rand", "lo": 0.3, "hi": 2.0, "s": g.seed()}
                                                  for _ in range(3)]}})
        if "diff" not in self.terms or self.terms["diff"] not in g.w.ents or rng.random() < 0.1:
            t = g.fresh("t")
            ops.append({"k": "build", "out": t, "a": {"fn": "diffusionTerm", "args": [self.D]}})
            self.terms["diff"] = t
        if rng.random() < 0.25 and "conv" not in self.terms:
            u = g.fresh("f")
            ops.append({"k": "face", "out": u,
                        "a": {"m": m, "val": [{"d": "rand", "lo": -1.0, "hi": 1.0, "s": g.seed()}
                                              for _ in range(3)]}})
            t = g.fresh("t")
            fn = rng.choice(("convectionTerm", "convectionUpwindTerm"))
            ops.append({"k": "build", "out": t, "a": {"fn": fn, "args": [u]}})
            self.terms["conv"] = t
        if rng.random() < 0.2 and "src" not in self.terms:
            s = g.pick("v", lambda e: e.meta["mesh"] == m)
            if s:
                t = g.fresh("t")
                ops.append({"k": "build", "out": t,
                            "a": {"fn": "constantSourceTerm", "args": [s]}})
                self.terms["src"] = t
        if rng.random() < 0.15 and "lin" not in self.terms:
            s = g.pick("v", lambda e: e.meta["mesh"] == m)
            if s:
                t = g.fresh("t")
                ops.append({"k": "build", "out": t,
                            "a": {"fn": "linearSourceTerm", "args": [s]}})
                self.terms["lin"] = t

    def solve_op(self, v, with_transient=True, pre=None):
        g = self.g
        rng = g.rng
        specs = []
        for role, t in self.terms.items():
            if role == "trans" and not with_transient:
                continue
            s = {"t": t}
            if self.stored and pre is not None and role != "trans":
                # the kept object (-M, k*M) is created once and passed as it is
                if role not in ("diff", "src", "lin"):
                    specs.append({"t": t})          # used exactly as the builder returned it
                    continue
                k = self.kept.get(role)
                src = g.w.ents.get(k).meta.get("parents", (None,))[0] if k in g.w.ents else None
                if k is None or k not in g.w.ents or src != t:
                    k = g.fresh("t")
                    pre.append({"k": "term_mod", "out": k,
                                "a": {"t": t, "neg": role == "diff",
                                      "scale": g.r(0.5, 2.0, 2) if role in ("src", "lin") else None,
                                      "fmt": rng.choice((None, None, None, "csc", "coo"))
                                      if role in ("diff", "lin") else None}})
                    self.kept[role] = k
                specs.append({"t": k})
                continue
            if role == "diff":
                s["neg"] = True
                if rng.random() < 0.2:
                    s["scale"] = g.r(0.5, 2.0, 2)
            elif role in ("src", "conv", "lin") and rng.random() < 0.2:
                s["scale"] = g.r(0.5, 2.0, 2)
                if rng.random() < 0.3:
                    s["neg"] = True
            if role != "trans" and rng.random() < 0.1:
                s["fmt"] = rng.choice(("csc", "coo"))
            specs.append(s)
        if not (self.stored and pre is not None):
            rng.shuffle(specs)
        if "unknown_term" in g.sw["faults"] and rng.random() < 0.1:
            specs.insert(rng.randrange(len(specs) + 1), {"bad": "ndim3"})
        if "singular" in g.sw["faults"] and rng.random() < 0.08:
            specs = [s for s in specs if s.get("t") == self.terms.get("diff")]
        a = {"v": v, "terms": specs, "solver": self.solver_mode()}
        if rng.random() < 0.1:
            a["container"] = "tuple"
        return {"k": "solve", "a": a}

    def transient_op(self, v, m=None):
        g = self.g
        rng = g.rng
        t = g.fresh("t")
        m = m or g.mesh_of(v)
        stale = isinstance(self.alpha, str) and (
            self.alpha not in g.w.ents or g.w.ents[self.alpha].meta["mesh"] != m)
        if self.alpha is None or stale or rng.random() < 0.1:
            self.alpha = g.r(0.5, 3.0, 2)
            if rng.random() < 0.4:
                cand = g.pick("v", lambda e: e.meta["mesh"] == m and e.name != v)
                if cand:
                    self.alpha = cand
        if rng.random() < 0.15:
            self.dt = g.r(0.05, 2.0, 3)
        self.terms["trans"] = t
        return {"k": "build", "out": t,
                "a": {"fn": "transientTerm", "args": [v, self.dt, self.alpha]}}

    def alpha_tick(self, ops):
        """The storage coefficient field changes in place between steps."""
        g = self.g
        if isinstance(self.alpha, str) and self.alpha in g.w.ents and g.rng.random() < 0.12:
            # the storage field is itself advanced by an explicit step and taken
            # over with update_value (source shares its BC object)
            tmp = g.fresh("v")
            ops.append({"k": "explicit", "out": tmp, "outb": g.fresh("b"),
                        "a": {"v": self.alpha, "dt": g.r(0.01, 0.2, 3),
                              "rhs": {"d": "rand", "lo": 0.1, "hi": 1.0, "s": g.seed()}}})
            ops.append({"k": "val_edit", "a": {"v": self.alpha, "how": "update", "src": tmp}})
            ops.append({"k": "drop", "a": {"names": [tmp]}})
            return
        if isinstance(self.alpha, str) and self.alpha in g.w.ents and g.rng.random() < 0.35:
            how = g.rng.choice(("assign", "imul", "slice"))
            a = {"v": self.alpha, "how": how, "sl": g.slspec(3)}
            if how == "imul":
                a["k"] = g.r(1.2, 2.0, 2)
            else:
                a["val"] = {"d": "rand", "lo": 0.5, "hi": 3.0, "s": g.seed()}
            ops.append({"k": "val_edit", "a": a})

    def bc_tick(self, ops):
        """A time-dependent boundary coefficient updated between steps."""
        g = self.g
        rng = g.rng
        if self.v not in g.w.ents:
            return
        b = g.w.ents[self.v].meta["bc"]
        u = rng.random()
        if u < 0.3:
            op = Editor.edit_op(g, b, only_c=rng.random() < 0.6)
            if op:
                ops.append(op)
        elif u < 0.5:
            # the boundary value is updated through a view the script keeps
            we = g.w.ents.get(self.view) if self.view else None
            if we is None or we.meta["b"] != b:
                m = g.w.ents[b].meta["mesh"]
                nd = g.nd_of_mesh(m)
                side = rng.choice([s for s in A.SIDES if A.SIDE_AXIS[s] < nd])
                self.view = g.fresh("w")
                ops.append({"k": "view_take", "out": self.view,
                            "a": {"b": b, "side": side, "coef": "c", "sl": g.slspec(2)}})
            else:
                ops.append({"k": "view_write",
                            "a": {"w": self.view,
                                  "val": Editor.coef_val(g, we.meta["side"], we.meta["coef"])}})


class ImplicitLoop(LoopBase):
    kind = "implicit"

    def __init__(self, g):
        super().__init__(g)
        # the documented time-loop idiom: a separate "old" variable that takes the
        # new solution over with update_value() before every step
        self.keep_old = g.rng.random() < 0.35
        self.old = None

    def protected(self):
        s = super().protected()
        if self.old:
            s.add(self.old)
        return s

    def make_plan(self):
        if not self.ensure_var():
            return []
        g = self.g
        ops = []
        self.spatial_plan(ops)
        self.bc_tick(ops)
        self.alpha_tick(ops)
        src = self.v
        if self.keep_old:
            oe = g.w.ents.get(self.old) if self.old else None
            if oe is None or oe.meta["mesh"] != g.mesh_of(self.v):
                self.old = g.fresh("v")
                ops.append({"k": "copy", "out": self.old, "outb": g.fresh("b"), "a": {"v": self.v}})
            else:
                ops.append({"k": "val_edit", "a": {"v": self.old, "how": "update", "src": self.v}})
            src = self.old
        if "trans" not in self.terms or self.terms["trans"] not in g.w.ents \
                or self.keep_old or g.rng.random() < 0.85:
            top = self.transient_op(src, g.mesh_of(self.v))
            if isinstance(top["a"]["args"][2], str) and top["a"]["args"][2] == src:
                top["a"]["args"][2] = 1.0
            ops.append(top)
        pre = []
        sop = self.solve_op(self.v, pre=pre)
        ops += pre
        ops.append(sop)
        self.iters += 1
        return ops


class ExplicitLoop(LoopBase):
    kind = "explicit"

    def rhs_plan(self, ops):
        g = self.g
        rng = g.rng
        v = self.v
        m = g.mesh_of(v)
        u = rng.random()
        if u < 0.5:
            if self.D is None or self.D not in g.w.ents:
                self.D = g.fresh("f")
                ops.append({"k": "face", "out": self.D, "a": {"m": m, "scalar": g.r(0.3, 1.5, 2)}})
            gr = g.fresh("f")
            ops.append({"k": "build", "out": gr, "a": {"fn": "gradientTerm", "args": [v]}})
            fl = g.fresh("f")
            ops.append({"k": "binop", "out": fl,
                        "a": {"op": "mul", "l": {"v": self.D}, "r": {"v": gr}}})
            r = g.fresh("t")
            ops.append({"k": "build", "out": r, "a": {"fn": "divergenceTerm", "args": [fl]}})
            return {"t": r}
        if u < 0.75:
            s = g.pick("v", lambda e: e.meta["mesh"] == m)
            r = g.fresh("t")
            ops.append({"k": "build", "out": r, "a": {"fn": "constantSourceTerm", "args": [s]}})
            return {"t": r}
        return {"d": "rand", "lo": -1.0, "hi": 1.0, "s": g.seed()}

    def make_plan(self):
        if not self.ensure_var():
            return []
        g = self.g
        rng = g.rng
        ops = []
        self.bc_tick(ops)
        if rng.random() < 0.5:
            ops.append({"k": "apply", "a": {"v": self.v}})
        rhs = self.rhs_plan(ops)
        out = g.fresh("v")
        ops.append({"k": "explicit", "out": out, "outb": g.fresh("b"),
                    "a": {"v": self.v, "dt": g.r(0.001, 0.2, 4), "rhs": rhs}})
        old = self.v
        if rng.random() < 0.85:
            self.v = out
            if rng.random() < 0.5:
                ops.append({"k": "drop", "a": {"names": [old]}})
        return ops


class SplitLoop(ExplicitLoop):
    kind = "split"

    def make_plan(self):
        if not self.ensure_var():
            return []
        g = self.g
        ops = []
        m = g.mesh_of(self.v)
        self.bc_tick(ops)
        rhs = self.rhs_plan(ops)
        out = g.fresh("v")
        ops.append({"k": "explicit", "out": out, "outb": g.fresh("b"),
                    "a": {"v": self.v, "dt": g.r(0.001, 0.2, 4), "rhs": rhs}})
        self.v = out
        self.spatial_plan(ops, m)
        if g.rng.random() < 0.3:
            op = Editor.edit_op(g, None, var=out)
            if op:
                ops.append(op)
        ops.append(self.transient_op(out, m))
        ops.append(self.solve_op(out))
        return ops


class Editor(Task):
    kind = "editor"

    @staticmethod
    def coef_val(g, side, coef, scalar_ok=True):
        """Coefficients well separated, away from degenerate Robin combinations."""
        rng = g.rng
        low = A.SIDE_LOW[side]
        if coef == "c":
            lo, hi = -2.0, 2.0
        elif coef == "a":
            lo, hi = 0.5, 2.0
        else:
            lo, hi = (-2.0, -0.5) if low else (0.5, 2.0)
        if rng.random() < 0.05:           # rare arbitrary sign (guarded by bc_ok)
            lo, hi = -2.0, 2.0
        if scalar_ok and rng.random() < 0.5:
            return {"d": "const", "x": g.r(lo, hi, 2), "scalar": True}
        if rng.random() < 0.3:
            return {"d": "const", "x": g.r(lo, hi, 2)}
        d = {"d": "rand", "lo": lo, "hi": hi, "s": g.seed()}
        if g.sw.get("layouts") and rng.random() < 0.25:
            d["lay"] = rng.choice(("F", "strided"))
        return d

    @staticmethod
    def edit_op(g, b, only_c=False, var=None):
        rng = g.rng
        if b is None and var is not None:
            return Editor.edit_op_for_var(g, var)
        if b not in g.w.ents:
            return None
        m = g.w.ents[b].meta["mesh"]
        nd = g.nd_of_mesh(m)
        cls = g.cls_of_mesh(m)
        sides = [s for s in A.SIDES if A.SIDE_AXIS[s] < nd]
        side = rng.choice(sides)
        u = rng.random()
        if only_c:
            how = rng.choice(("assign", "full", "slice", "imul"))
            a = {"b": b, "side": side, "coef": "c", "how": how, "sl": g.slspec(2)}
            if how == "imul":
                a["k"] = g.r(0.5, 2.0, 2)
            else:
                a["val"] = Editor.coef_val(g, side, "c")
            return {"k": "bc_edit", "a": a}
        pbias = (0.45 if g.prop == "C03" else 0.3) if g.sw["periodic_bias"] else 0.08
        if u < pbias:
            radial_ok = "radial_periodic" in g.sw["faults"]
            cand = [s for s in sides
                    if radial_ok or not (A.SIDE_AXIS[s] == 0 and cls in A.RADIAL)]
            if cand:
                s = rng.choice(cand)
                on = rng.random() < 0.6
                return {"k": "bc_periodic", "a": {"b": b, "side": s, "on": on}}
        if u < pbias + 0.25:
            fn = rng.choice(("fixedValue", "fixedGradient", "newtonCooling", "defaultNoFlux"))
            a = {"b": b, "side": side, "fn": fn}
            if fn == "fixedValue":
                a["val"] = g.scal_or_arr(-2.0, 2.0)
            elif fn == "fixedGradient":
                a["val"] = g.scal_or_arr(-2.0, 2.0)
                if rng.random() < 0.3:
                    a["scale"] = g.r(0.5, 3.0, 2)
            elif fn == "newtonCooling":
                a.update({"kk": g.r(0.5, 2.0, 2), "h": g.r(0.5, 2.0, 2), "T": g.r(-1.0, 3.0, 2),
                          "rev": A.SIDE_LOW[side]})
            return {"k": "bc_util", "a": a}
        if u < pbias + 0.25 + (0.1 if g.prop == "C03" else 0.04):
            # the same condition written with other numbers: (a, b, c) * factor
            kd = {"d": "const", "x": g.r(0.3, 3.0, 2), "scalar": True} if rng.random() < 0.5 \
                else {"d": "rand", "lo": 0.3, "hi": 3.0, "s": g.seed()}
            return {"k": "bc_scale", "a": {"b": b, "side": side, "k": kd,
                                           "neg": rng.random() < 0.4}}
        if rng.random() < (0.06 if g.prop in ("C03", "C09") else 0.03):
            # a change the tracking cannot see, with one of the documented remedies
            coef = rng.choice(("a", "b", "c", "c"))
            return {"k": "bc_untracked",
                    "a": {"b": b, "side": side, "coef": coef,
                          "how": rng.choice(("fill", "copyto", "ufunc_out", "put")),
                          "remedy": rng.choice(("apply", "apply", "flag")),
                          "val": Editor.coef_val(g, side, coef)}}
        st = g.w.ents[b].meta.get("state", {}).get(side)
        if st is not None and rng.random() < 0.06:
            # pure Dirichlet / pure Neumann written with a coefficient other than 1
            if _np.all(_np.abs(st["b"]) >= 0.4):
                return {"k": "bc_edit", "a": {"b": b, "side": side, "coef": "a", "how": "assign",
                                              "val": {"d": "const", "x": 0.0, "scalar": True},
                                              "sl": g.slspec(2)}}
            if _np.all(_np.abs(st["a"]) >= 0.4):
                return {"k": "bc_edit", "a": {"b": b, "side": side, "coef": "b", "how": "assign",
                                              "val": {"d": "const", "x": 0.0, "scalar": True},
                                              "sl": g.slspec(2)}}
        if rng.random() < 0.06:
            return {"k": "bc_edit", "a": {"b": b, "side": side, "coef": "c", "how": "mask",
                                          "t": g.r(-1.0, 1.0, 2), "x": g.r(-2.0, 2.0, 2),
                                          "sl": g.slspec(2)}}
        coef = rng.choice(("a", "b", "c", "c"))
        how = rng.choice(("assign", "full", "slice", "item2", "imul"))
        a = {"b": b, "side": side, "coef": coef, "how": how, "sl": g.slspec(2),
             "sl2": g.slspec(1)}
        if how == "imul":
            a["k"] = g.r(0.5, 2.0, 2)
        else:
            a["val"] = Editor.coef_val(g, side, coef, scalar_ok=True)
            if how in ("slice", "item2"):
                a["val"] = Editor.coef_val(g, side, coef)
        return {"k": "bc_edit", "a": a}

    @staticmethod
    def edit_op_for_var(g, var):
        """An edit addressed through a variable that may not exist yet at
        generation time (its BC entry name is resolved by the world)."""
        side = g.rng.choice(("left", "right"))
        return {"k": "bc_util_var", "a": {"v": var, "side": side, "fn": "fixedValue",
                                          "val": g.scal_or_arr(-2.0, 2.0)}}

    def make_plan(self):
        g = self.g
        rng = g.rng
        b = g.pick("b")
        if b is None:
            return []
        u = rng.random()
        if u < 0.1:
            m = g.w.ents[b].meta["mesh"]
            nd = g.nd_of_mesh(m)
            side = rng.choice([s for s in A.SIDES if A.SIDE_AXIS[s] < nd])
            return [{"k": "view_take", "out": g.fresh("w"),
                     "a": {"b": b, "side": side, "coef": rng.choice("abc"),
                           "sl": g.slspec(2)}}]
        if u < 0.25:
            wn = g.pick("w")
            if wn:
                we = g.w.ents[wn]
                return [{"k": "view_write",
                         "a": {"w": wn, "val": Editor.coef_val(g, we.meta["side"],
                                                               we.meta["coef"])}}]
        # prefer BC objects that are shared / used by a loop
        if rng.random() < 0.6:
            sh = [n for n in g.names("b") if len(g.w.sharers(n)) >= (2 if rng.random() < 0.5 else 1)]
            if sh:
                b = rng.choice(sh)
        op = Editor.edit_op(g, b)
        return [op] if op else []


class ValueEditor(Task):
    kind = "valedit"

    def make_plan(self):
        g = self.g
        rng = g.rng
        v = g.pick("v")
        if v is None:
            return []
        how = rng.choice(("assign", "slice", "slice2", "imul", "update", "mask", "fancy"))
        a = {"v": v, "how": how}
        if how == "mask":
            a.update({"t": g.r(-0.5, 1.5, 2), "x": g.r(-2.0, 3.0, 2)})
            return [{"k": "val_edit", "a": a}]
        if how == "imul":
            a["k"] = g.r(0.5, 2.0, 2)
        elif how == "update":
            m = g.mesh_of(v)
            src = g.pick("v", lambda e: e.meta["mesh"] == m and e.name != v)
            if rng.random() < 0.4:
                # prefer a source that shares the target's BC object (explicit results do)
                bb = g.w.ents[v].meta["bc"]
                src = g.pick("v", lambda e: e.meta["bc"] == bb and e.name != v) or src
            if src is None:
                return []
            a["src"] = src
        else:
            a["sl"] = g.slspec(3)
            a["sl2"] = g.slspec(3)
            a["val"] = g.vdesc()
            if rng.random() < 0.4:
                a["val"] = {"d": "const", "x": g.r(-2.0, 3.0, 2), "scalar": True}
        return [{"k": "val_edit", "a": a}]


class Cloner(Task):
    kind = "cloner"

    def make_plan(self):
        g = self.g
        rng = g.rng
        u = rng.random()
        v = g.pick("v")
        if v and rng.random() < 0.6:
            # prefer variables whose BC object is shared (their hidden state is richer)
            sh = [n for n in g.names("v") if len(g.w.sharers(g.w.ents[n].meta["bc"])) >= 2]
            if sh:
                v = rng.choice(sh)
        if u < 0.35 and v:
            out = g.fresh("v")
            ops = [{"k": "copy", "out": out, "outb": g.fresh("b"), "a": {"v": v}}]
            if rng.random() < 0.4:
                ops += Prober.solve_ops(g, out, g.mesh_of(v))     # the copy is put to use
            return ops
        if u < 0.39 and v and not g.w.ents[v].meta.get("noprecalc"):
            # expert flow: hand-assembled system through solveMatrixPDE; the returned
            # variable joins the pool (copy(), algebra, apply_BCs, solves follow)
            m_ = g.mesh_of(v)
            D = g.fresh("f")
            tD, tT = g.fresh("t"), g.fresh("t")
            return [{"k": "face", "out": D, "a": {"m": m_, "scalar": g.r(0.3, 2.0, 2)}},
                    {"k": "build", "out": tD, "a": {"fn": "diffusionTerm", "args": [D]}},
                    {"k": "build", "out": tT, "a": {"fn": "transientTerm", "args": [v, g.r(0.05, 2.0, 3), 1.0]}},
                    {"k": "matrixpde", "out": g.fresh("v"), "outb": g.fresh("b"),
                     "a": {"v": v, "terms": [{"t": tT}, {"t": tD, "neg": True}]}},
                    {"k": "drop", "a": {"names": [tD, tT, D]}}]
        if u < 0.42 and v:
            return [{"k": "apply", "a": {"v": v}}]      # an explicit, harmless apply_BCs()
        if u < 0.68 and g.sw["share_bc"]:
            b = g.pick("b")
            if b:
                m = g.w.ents[b].meta["mesh"]
                a = {"m": m, "val": g.vdesc(), "bc": b}
                if rng.random() < 0.15:
                    a["ghosts"] = True
                if g.sw["palette"] == "ints" and rng.random() < 0.5:
                    a["val"] = {"d": "ints", "lo": -2, "hi": 2, "s": g.seed()}
                    a["dtype"] = "int"
                if rng.random() < 0.2:
                    a["scalar"] = True
                    a["val"] = {"d": "const", "x": g.r(0.5, 3.0, 2)}
                if rng.random() < 0.15:
                    a["noprecalc"] = True     # an auxiliary field that is never solved for
                    ops = [{"k": "var", "out": g.fresh("v"), "a": a}]
                    if rng.random() < 0.7:
                        ops.append({"k": "apply", "a": {"v": ops[0]["out"]}})
                    return ops
                return [{"k": "var", "out": g.fresh("v"), "a": a}]
        m = g.pick("m")
        if m is None:
            return []
        if u < 0.8:
            return [{"k": "var", "out": g.fresh("v"), "outb": g.fresh("b"),
                     "a": {"m": m, "val": g.vdesc()}}]
        if u < 0.9:
            return [{"k": "bc", "out": g.fresh("b"), "a": {"m": m}}]
        if len(g.names("m")) < 3:
            if rng.random() < 0.5:
                return [g.regrade_op(m)]
            return [g.mesh_op(rng.choice(g.sw["classes"]))]
        return []



class Algebra(Task):
    kind = "algebra"

    def operand(self, kind, m, allow=("v", "s", "arr")):
        g = self.g
        rng = g.rng
        k = rng.choice(allow)
        if k == "v":
            n = g.pick(kind, lambda e: e.meta["mesh"] == m)
            if n:
                return {"v": n}
            k = "s"
        if k == "s":
            if g.sw["palette"] == "ints" and rng.random() < 0.6:
                return {"s": float(rng.randint(-2, 2))}
            return {"s": g.r(-2.0, 3.0, 2)}
        if kind == "f":
            return {"arr": {"d": "const", "x": g.r(0.5, 2.0, 2)}}
        return {"arr": g.vdesc()}

    def make_plan(self, kind="v"):
        g = self.g
        rng = g.rng
        x = g.pick(kind)
        if x is None:
            return []
        m = g.mesh_of(x)
        out = g.fresh(kind)
        outb = g.fresh("b") if kind == "v" else None
        u = rng.random()
        op = None
        if u < 0.62:
            name = rng.choice(ARITH + ARITH + CMP + LOGIC)
            left_var = rng.random() < 0.65
            if left_var:
                l = {"v": x}
                r = self.operand(kind, m)
            else:
                if name in LOGIC:
                    l = {"v": x}
                    r = self.operand(kind, m, allow=("v", "s"))
                else:
                    l = self.operand(kind, m, allow=("s",))
                    r = {"v": x}
            if name == "pow":
                # keep powers tame
                if "v" in r and "v" in l:
                    if rng.random() < 0.6:
                        name = "mul"
                elif "s" in r:
                    r = {"s": float(rng.choice((2, 3, 0.5, -1)))}
                elif "s" in l:
                    l = {"s": g.r(0.5, 2.0, 2)}
            op = {"k": "binop", "out": out, "a": {"op": name, "l": l, "r": r}}
        elif u < 0.74:
            op = {"k": "unop", "out": out, "a": {"op": rng.choice(("neg", "abs")), "x": x}}
        elif u < 0.92:
            f = rng.choice(sorted(k for k in PURE_FUNCS if k != "boom"))
            n = PURE_FUNCS[f][0]
            args = [x]
            for _ in range(n - 1):
                args.append(g.pick(kind, lambda e: e.meta["mesh"] == m))
            fn = "faceeval" if kind == "f" else rng.choice(("funceval", "celleval"))
            op = {"k": "eval", "out": out, "a": {"fn": fn, "f": f, "args": args}}
        elif kind == "v":
            op = {"k": "copy", "out": out, "a": {"v": x}}
        else:
            op = {"k": "unop", "out": out, "a": {"op": "abs", "x": x}}
        if outb:
            op["outb"] = outb
        return [op]


class FaceAlgebra(Algebra):
    kind = "facealg"

    def make_plan(self):
        g = self.g
        if not g.names("f") or g.rng.random() < 0.15:
            m = g.pick("m")
            if m is None:
                return []
            return [{"k": "face", "out": g.fresh("f"),
                     "a": {"m": m, "val": [g.vdesc() for _ in range(3)]}}]
        return Algebra.make_plan(self, kind="f")


class Builder(Task):
    """Calls every public builder; re-invokes recorded calls (determinism)."""
    kind = "builder"

    def make_plan(self):
        g = self.g
        rng = g.rng
        if rng.random() < 0.3:
            cand = [n for n, e in g.w.ents.items() if e.meta.get("recipe") is not None]
            if cand:
                return [{"k": "rebuild", "a": {"of": rng.choice(cand)}}]
        fn = rng.choice(sorted(BUILDERS))
        spec, kind = BUILDERS[fn]
        m = g.pick("m")
        if m is None:
            return []
        if fn in ("convectionUpwindTerm2",) and g.cls_of_mesh(m) not in UPWIND2_CLASSES:
            fn = "convectionUpwindTerm"
            spec, kind = BUILDERS[fn]
        ops = []
        args = []
        for s in spec:
            if s == "m":
                args.append(m)
            elif s in ("v", "f", "b"):
                n = g.pick(s, lambda e: e.meta["mesh"] == m)
                if n is None or (s == "f" and rng.random() < 0.2):
                    n = g.fresh(s)
                    if s == "f":
                        ops.append({"k": "face", "out": n,
                                    "a": {"m": m, "val": [g.vdesc(positive=fn in ("diffusionTerm",))
                                                          for _ in range(3)]}})
                    elif s == "v":
                        ops.append({"k": "var", "out": n, "outb": g.fresh("b"),
                                    "a": {"m": m, "val": g.vdesc()}})
                    else:
                        ops.append({"k": "bc", "out": n, "a": {"m": m}})
                args.append(n)
            elif s == "FL":
                args.append(rng.choice(FLUX_LIMITERS))
            elif s == "dt":
                args.append(g.r(0.01, 2.0, 3))
            elif s == "alpha":
                if rng.random() < 0.4:
                    n = g.pick("v", lambda e: e.meta["mesh"] == m)
                    args.append(n if n else g.r(0.5, 2.0, 2))
                else:
                    args.append(g.r(0.5, 2.0, 2))
        if kind in ("v*", "f*"):
            nd = g.nd_of_mesh(m)
            out = [g.fresh("v" if kind == "v*" else "f") for _ in range(nd)]
        elif kind == "f":
            out = g.fresh("f")
        elif kind == "d":
            out = g.fresh("d")
        else:
            out = g.fresh("t")
        ops.append({"k": "build", "out": out, "a": {"fn": fn, "args": args}})
        return ops


class Scribbler(Task):
    kind = "scribbler"

    def make_plan(self):
        g = self.g
        rng = g.rng
        cand = [n for n, e in g.w.ents.items()
                if e.kind in ("t", "f", "v", "b") and e.meta.get("created_kind") in
                ("build", "binop", "unop", "eval", "copy", "explicit", "term_mod")]
        if not cand:
            return []
        return [{"k": "scribble", "a": {"obj": rng.choice(cand), "i": rng.randrange(6),
                                        "x": g.r(3.0, 9.0, 2)}}]


class FixedPoint(LoopBase):
    kind = "fixedpoint"

    def make_plan(self):
        if not self.ensure_var():
            return []
        g = self.g
        rng = g.rng
        m = g.mesh_of(self.v)
        ops = []
        D = g.fresh("f")
        ops.append({"k": "face", "out": D,
                    "a": {"m": m, "val": [{"d": "rand", "lo": 0.3, "hi": 2.0, "s": g.seed()}
                                          for _ in range(3)]}})
        tD = g.fresh("t")
        ops.append({"k": "build", "out": tD, "a": {"fn": "diffusionTerm", "args": [D]}})
        beta = g.fresh("v")
        ops.append({"k": "var", "out": beta, "outb": g.fresh("b"),
                    "a": {"m": m, "val": {"d": "rand", "lo": 0.5, "hi": 2.0, "s": g.seed()}}})
        tL = g.fresh("t")
        ops.append({"k": "build", "out": tL, "a": {"fn": "linearSourceTerm", "args": [beta]}})
        src = g.fresh("v")
        ops.append({"k": "var", "out": src, "outb": g.fresh("b"),
                    "a": {"m": m, "val": {"d": "rand", "lo": -1.0, "hi": 2.0, "s": g.seed()}}})
        tS = g.fresh("t")
        ops.append({"k": "build", "out": tS, "a": {"fn": "constantSourceTerm", "args": [src]}})
        terms = [{"t": tD, "neg": True}, {"t": tL}, {"t": tS}]
        if rng.random() < 0.4:
            u = g.fresh("f")
            ops.append({"k": "face", "out": u,
                        "a": {"m": m, "val": [{"d": "rand", "lo": -0.5, "hi": 0.5, "s": g.seed()}
                                              for _ in range(3)]}})
            tC = g.fresh("t")
            ops.append({"k": "build", "out": tC,
                        "a": {"fn": "convectionUpwindTerm", "args": [u]}})
            terms.append({"t": tC})
        alpha = g.r(0.2, 5.0, 2)
        if rng.random() < 0.5:
            alpha = beta if rng.random() < 0.5 else src
            if alpha == src:
                # alpha must be positive
                alpha = beta
        dt = 10 ** g.r(-6.0, 6.0, 2)
        ops.append({"k": "fixedpoint", "a": {"v": self.v, "terms": terms, "dt": dt,
                                            "alpha": alpha, "limits": rng.random() < 0.5}})
        ops.append({"k": "drop", "a": {"names": [tD, tL, tS, beta, src, D]}})
        return ops


class Prober(Task):
    """Puts variables to use that have not been solved since something happened to
    them: fresh copies, explicit results, new sharers of a BC object, variables
    whose (possibly shared) BCs were edited and consumed by somebody else.  The
    checks without shadow solves (C03, C04, C12, C15) see a stale boundary system
    only at a real solve."""
    kind = "prober"

    @staticmethod
    def solve_ops(g, v, m):
        rng = g.rng
        ops = []
        D = g.pick("f", lambda e: e.meta["mesh"] == m and e.meta.get("created_kind") == "face")
        if D is None or rng.random() < 0.3:
            D = g.fresh("f")
            ops.append({"k": "face", "out": D, "a": {"m": m, "scalar": g.r(0.3, 2.0, 2)}})
        tD = g.fresh("t")
        ops.append({"k": "build", "out": tD, "a": {"fn": "diffusionTerm", "args": [D]}})
        tT = g.fresh("t")
        ops.append({"k": "build", "out": tT,
                    "a": {"fn": "transientTerm", "args": [v, g.r(0.05, 2.0, 3), g.r(0.5, 3.0, 2)]}})
        ops.append({"k": "solve", "a": {"v": v, "terms": [{"t": tT}, {"t": tD, "neg": True}],
                                        "solver": None}})
        ops.append({"k": "drop", "a": {"names": [tD, tT]}})
        return ops

    def make_plan(self):
        g = self.g
        w = g.w
        rng = g.rng
        cand = []
        for n in g.names("v"):
            e = w.ents[n]
            if e.meta.get("noprecalc"):
                continue
            b = w.ents.get(e.meta.get("bc"))
            lc = e.meta.get("last_consume", -1)
            score = 0
            if b is not None and b.meta.get("last_edit", -1) > lc:
                score += 2
            if b is not None and any(w.ents[s_].meta.get("last_consume", -1) > lc
                                     for s_ in w.sharers(b.name) if s_ != n):
                score += 2
            if e.meta.get("origin") in ("copy", "explicit-result", "given-BC", "with-ghosts") \
                    and not e.meta.get("probed"):
                score += 2
            if score:
                cand.append((score, n))
        if cand and rng.random() < 0.8:
            top = max(c[0] for c in cand)
            v = rng.choice([n for sc, n in cand if sc == top])
        else:
            v = g.pick("v", lambda e: not e.meta.get("noprecalc"))
        if v is None:
            return []
        w.ents[v].meta["probed"] = True
        return Prober.solve_ops(g, v, g.mesh_of(v))


class FaultInjector(Task):
    """Places faults inside workload: on variables that are dirty, shared or in a loop."""
    kind = "fault"

    def target_var(self):
        g = self.g
        w = g.w
        dirty = [n for n in g.names("v") if w.abstract_state(w.ents[n])[3]
                 or w.abstract_state(w.ents[n])[4]]
        shared = [n for n in g.names("v") if len(w.sharers(w.ents[n].meta["bc"])) >= 2]
        pool = dirty if (dirty and g.rng.random() < 0.6) else (shared or g.names("v"))
        return g.rng.choice(pool) if pool else None

    def make_plan(self):
        """A fault, often set up with a pending edit on the same object and followed
        by a real solve of the target, so that what the failed call left behind is
        put to use (the checks without shadow solves see it only then)."""
        g = self.g
        rng = g.rng
        ops = self._fault_plan()
        if not ops:
            return ops
        tgt = None
        for o in ops:
            a = o.get("a", {})
            if o["k"] in ("bc_util", "bc_badshape") and a.get("b") in g.w.ents:
                sh = g.w.sharers(a["b"])
                tgt = rng.choice(sh) if sh else None
                if a.get("side") and rng.random() < 0.5:
                    # an unconsumed edit on the face the failing call is about to touch
                    pre = {"k": "bc_edit", "a": {"b": a["b"], "side": a["side"], "coef": "c",
                                                 "how": "assign", "sl": g.slspec(2),
                                                 "val": Editor.coef_val(g, a["side"], "c")}}
                    if rng.random() < 0.5:
                        pre = {"k": "bc_util", "a": {"b": a["b"], "side": a["side"], "fn": "fixedValue",
                                                     "val": g.scal_or_arr(-2.0, 2.0)}}
                    ops = [pre] + ops
            elif o["k"] in ("val_edit", "apply", "solve", "explicit") and a.get("v") in g.w.ents:
                tgt = a["v"]
        if tgt and tgt in g.w.ents and not g.w.ents[tgt].meta.get("noprecalc") and rng.random() < 0.5:
            ops = ops + Prober.solve_ops(g, tgt, g.mesh_of(tgt))
        return ops

    def _fault_plan(self):
        g = self.g
        rng = g.rng
        f = g.sw["faults"]
        if not f:
            return []
        kind = rng.choice(f)
        v = self.target_var()
        if v is None:
            return []
        ve = g.w.ents[v]
        b = ve.meta["bc"]
        m = ve.meta["mesh"]
        nd = g.nd_of_mesh(m)
        sides = [s for s in A.SIDES if A.SIDE_AXIS[s] < nd]
        if kind == "alloc_in_apply":
            inner = rng.choice(("alloc_cache", "alloc_cache", "alloc_ghost"))
            if rng.random() < 0.5:
                return [{"k": "apply", "a": {"v": v, "inner": inner, "nth": 1}}]
            t = g.pick("t", lambda e: e.meta.get("mesh") == m and e.meta["kind"] in ("M", "MR"))
            ops = []
            if t is None:
                D = g.fresh("f")
                ops.append({"k": "face", "out": D, "a": {"m": m, "scalar": 1.0}})
                t = g.fresh("t")
                ops.append({"k": "build", "out": t, "a": {"fn": "diffusionTerm", "args": [D]}})
            tt = g.fresh("t")
            ops.append({"k": "build", "out": tt, "a": {"fn": "transientTerm", "args": [v, 0.1, 1.0]}})
            neg = g.w.ents[t].meta.get("recipe", {}).get("fn") == "diffusionTerm" if t in g.w.ents else True
            ops.append({"k": "solve", "a": {"v": v, "terms": [{"t": tt}, {"t": t, "neg": bool(neg)}],
                                            "solver": None, "inner": inner, "nth": rng.choice((1, 2))}})
            return ops
        if kind == "bad_shape_assign":
            wv = g.pick("w")
            if wv and rng.random() < 0.3:
                return [{"k": "view_write", "a": {"w": wv, "wrong_shape": True}}]
            if rng.random() < 0.5:
                return [{"k": "val_edit", "a": {"v": v, "how": "badshape"}}]
            return [{"k": "bc_badshape", "a": {"b": b, "side": rng.choice(sides),
                                               "coef": rng.choice("abc")}}]
        if kind == "partial_utility":
            ls = g.w.ents[b].meta.get("last_edit_side") if b in g.w.ents else None
            side_ = ls if (ls in sides and rng.random() < 0.6) else rng.choice(sides)
            return [{"k": "bc_util", "a": {"b": b, "side": side_,
                                           "fn": rng.choice(("fixedValue", "fixedGradient")),
                                           "wrong_shape": True}}]
        if kind == "explicit_badrhs":
            return [{"k": "explicit", "out": g.fresh("v"), "outb": g.fresh("b"),
                     "a": {"v": v, "dt": 0.01, "rhs": {"badsize": True}}}]
        if kind == "algebra_mismatch":
            other = g.pick("v", lambda e: e.meta["mesh"] != m)
            if other is None:
                return []
            l, r = (v, other) if rng.random() < 0.5 else (other, v)
            return [{"k": "binop", "out": g.fresh("v"), "outb": g.fresh("b"),
                     "a": {"op": rng.choice(ARITH), "l": {"v": l}, "r": {"v": r}, "fault": True}}]
        if kind == "eval_raises":
            fv = g.pick("f", lambda e: e.meta["mesh"] == m)
            if fv and rng.random() < 0.4:
                return [{"k": "eval", "out": g.fresh("f"), "a": {"fn": "faceeval", "f": "boom", "args": [fv]}},
                        {"k": "scribble", "a": {"obj": fv, "i": rng.randrange(3), "x": g.r(3.0, 9.0, 2)}}]
            return [{"k": "eval", "out": g.fresh("v"), "outb": g.fresh("b"),
                     "a": {"fn": rng.choice(("funceval", "celleval")), "f": "boom", "args": [v]}}]
        if kind == "update_mismatch":
            src = g.pick("v", lambda e: e.meta["mesh"] != m)
            if src is None:
                return []
            return [{"k": "val_edit", "a": {"v": v, "how": "update", "src": src}}]
        if kind == "radial_periodic":
            if g.cls_of_mesh(m) not in A.RADIAL:
                return []
            side = rng.choice(("left", "right"))
            ops = [{"k": "bc_periodic", "a": {"b": b, "side": side, "on": True}}]
            u = rng.random()
            if u < 0.4:
                ops.append({"k": "apply", "a": {"v": v}})
            elif u < 0.6:
                ops.append({"k": "copy", "out": g.fresh("v"), "outb": g.fresh("b"), "a": {"v": v}})
            if rng.random() < 0.8:
                ops.append({"k": "bc_periodic", "a": {"b": b, "side": side, "on": False}})
            return ops
        # solver faults, unknown term, singular: need a term on this mesh
        t = g.pick("t", lambda e: e.meta.get("mesh") == m and e.meta["kind"] in ("M", "MR"))
        ops = []
        if t is None:
            D = g.fresh("f")
            ops.append({"k": "face", "out": D, "a": {"m": m, "scalar": 1.0}})
            t = g.fresh("t")
            ops.append({"k": "build", "out": t, "a": {"fn": "diffusionTerm", "args": [D]}})
            tt = g.fresh("t")
            ops.append({"k": "build", "out": tt,
                        "a": {"fn": "transientTerm", "args": [v, 0.1, 1.0]}})
            specs = [{"t": tt}, {"t": t, "neg": True}]
        else:
            specs = [{"t": t}]
            tt = g.pick("t", lambda e: e.meta.get("mesh") == m and e.meta["kind"] == "MR")
            if tt and tt != t:
                specs.append({"t": tt})
        mode = None
        if kind == "solver_raise":
            mode = "ext_raise"
        elif kind == "solver_badshape":
            mode = "ext_badshape"
        elif kind == "solver_scribble":
            mode = "ext_scribble_raise" if rng.random() < 0.6 else "ext_scribble"
        elif kind == "solver_nan":
            mode = "ext_nan"
        elif kind == "unknown_term":
            specs.insert(rng.randrange(len(specs) + 1), {"bad": "ndim3"})
        elif kind == "bad_tuple":
            mr = g.pick("t", lambda e: e.meta.get("mesh") == m and e.meta["kind"] == "MR")
            if mr is None:
                mr = g.fresh("t")
                ops.append({"k": "build", "out": mr,
                            "a": {"fn": "transientTerm", "args": [v, 0.1, 1.0]}})
            specs.insert(rng.randrange(len(specs) + 1),
                         {"bad": rng.choice(("tuple_swapped", "tuple3")), "t": mr})
        elif kind == "foreign_term":
            ft = g.pick("t", lambda e: e.meta.get("mesh") != m and e.meta["kind"] in ("M", "R", "MR"))
            if ft is None:
                return []
            specs.insert(rng.randrange(len(specs) + 1), {"t": ft, "foreign": True})
        elif kind == "singular":
            D = g.fresh("f")
            ops.append({"k": "face", "out": D, "a": {"m": m, "scalar": 1.0}})
            t2 = g.fresh("t")
            ops.append({"k": "build", "out": t2, "a": {"fn": "diffusionTerm", "args": [D]}})
            specs = [{"t": t2, "neg": True}]
        ops.append({"k": "solve", "a": {"v": v, "terms": specs, "solver": mode}})
        return ops


TASKS = {"implicit": ImplicitLoop, "explicit": ExplicitLoop, "split": SplitLoop,
         "editor": Editor, "valedit": ValueEditor, "cloner": Cloner, "algebra": Algebra,
         "facealg": FaceAlgebra, "builder": Builder, "scribbler": Scribbler,
         "fixedpoint": FixedPoint, "fault": FaultInjector, "prober": Prober}
