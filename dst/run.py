"""One simulated run (generate + execute), replay of a recorded op list, and
the per-property engine configuration."""
import hashlib
import random
import time

from . import adapter as A
from .gen import Gen, swarm_config
from .util import Violation, hsnap
from .world import World

PROPS = ("C03", "C04", "C09", "C12", "C14", "C15")

# which invariants run in a check of each property (the gating ones are those
# whose violations carry that property id; the rest produce notes only)
INV = {
    "C09": ("I1", "I2", "I3", "I8"),
    "C14": ("I1", "I2", "I3", "I8"),
    "C15": ("I1", "I7", "I8"),
    "C03": ("I1", "I4"),
    "C04": ("I1", "I5"),
    "C12": ("I1", "I6"),
}


def run_seed_for(master, prop, i, faults):
    h = hashlib.sha256(("%d|%s|%d|%d" % (int(master), prop, int(i), int(bool(faults)))).encode())
    return int.from_bytes(h.digest()[:6], "big")


KNOWN = []      # set by check.py from known_findings.json (status == known)


def world_cfg(prop, shadow=False):
    return {"prop": prop, "inv": INV[prop], "i3_other": True,
            "i3_only_copies": prop == "C14",
            "shadow": bool(shadow) and prop in ("C03", "C04", "C12", "C15"),
            "known": [k for k in KNOWN if k[0] == prop]}


_CANARY = None


def canary_snapshot():
    """Process-global state inside PyFVTool is monitored, not controlled: one
    canary mesh per grid class must look the same at the end of every run."""
    pf = A.load()
    out = []
    for cls in A.GRID_CLASSES:
        nd = A.GRID_NDIM[cls]
        m = getattr(pf, cls)(*([2] * nd + [1.0] * nd))
        out.append(A.snap_mesh(m))
    return hsnap(tuple(out))


def check_canaries(world):
    global _CANARY
    cur = canary_snapshot()
    if _CANARY is None:
        _CANARY = cur
        return
    if cur != _CANARY:
        _CANARY = cur
        world.flag("C15", "I7", "canary/process-global-state-changed", {})


def simulate(prop, seed, tier="quick", faults=False, max_ops=None):
    """Generate and execute one run.  Returns a result dict."""
    t0 = time.perf_counter()
    rng = random.Random(seed)
    sw = swarm_config(rng, prop, tier, faults)
    world = World(world_cfg(prop, sw.get("shadow")))
    if _CANARY is None:
        check_canaries(world)
    gen = Gen(world, rng, prop, sw)
    ops = []
    viol = None
    nsteps = sw["steps"] + len(gen.queue)
    if max_ops:
        nsteps = min(nsteps, max_ops)
    try:
        for _ in range(nsteps):
            op = gen.next_op()
            ops.append(op)
            world.exec_op(op)
        world.finish()
        check_canaries(world)
    except Violation as v:
        viol = v
    return result_of(world, ops, viol, seed, sw, time.perf_counter() - t0)


def replay(prop, ops, canaries=False, shadow=True):
    """Execute a recorded op list; never consults a PRNG.  `shadow` must be what the
    original run used (the extra oracle may fire earlier, with another class)."""
    t0 = time.perf_counter()
    world = World(world_cfg(prop, shadow))
    if canaries and _CANARY is None:
        check_canaries(world)
    viol = None
    try:
        for op in ops:
            world.exec_op(op)
        world.finish()
        if canaries:
            check_canaries(world)
    except Violation as v:
        viol = v
    return result_of(world, ops, viol, None, None, time.perf_counter() - t0)


def simulate_strat(prop, family, index, master=0):
    """One stratified run: the index is decoded into a cell of the family's
    product space (dst/strat.py) and the resulting op list is executed."""
    from . import strat
    ops, label = strat.plan(family, index, master)
    r = replay(prop, ops, canaries=True)
    r["seed"] = int(index)
    r["swarm"] = {"family": family, "index": int(index), "label": label, "master": int(master)}
    return r


def result_of(world, ops, viol, seed, sw, wall):
    gating = sum(v for k, v in world.oracle_runs.items())
    return {
        "seed": seed,
        "swarm": sw,
        "ops": ops,
        "violation": viol.as_dict() if viol else None,
        "vclass": viol.cls() if viol else None,
        "step": world.step,
        "digest": world.digest(),
        "stats": dict(world.stats),
        "probes": dict(world.probes),
        "oracle_runs": dict(world.oracle_runs),
        "trans": world.trans,
        "notes": world.notes,
        "known_hits": {"|".join(k): v for k, v in world.known_hits.items()},
        "events": world.events,
        "wall": wall,
        "nontrivial": gating > 0,
    }
