"""Deterministic simulation engine for PyFVTool (see /verif/DESIGN.md)."""
