"""The simulated world: pools of *real* PyFVTool objects, the reference model of
their visible state, op execution, and the invariants I1..I8 (DESIGN.md 3).

Every op is a JSON object.  An op whose operand is missing or whose
precondition fails is a no-op (util.Skip), so every subsequence of a trace is
executable -- the property the shrinker needs.
"""
import copy
import warnings
from collections import Counter

import numpy as np
import scipy.sparse as sp
from scipy.sparse.linalg import spsolve as _scipy_spsolve

from . import adapter as A
from . import oracles as O
from .descr import materialize, rslices
from .util import Violation, Skip, hsnap, jdump, same, exact, shares, maxdiff

warnings.simplefilter("ignore")
np.seterr(all="ignore")

PURE_FUNCS = {
    "sq": (1, lambda x: x * x),
    "sin": (1, lambda x: np.sin(x)),
    "exp": (1, lambda x: np.exp(-np.abs(x))),
    "add": (2, lambda x, y: x + y),
    "mix": (2, lambda x, y: 0.25 * x - y * y),
    "fma": (3, lambda x, y, z: x * y + z),
    "boom": (1, lambda x: (_ for _ in ()).throw(ValueError("user function failed"))),
    "w4": (4, lambda a, b, c, d: a + 2 * b + 3 * c + 4 * d),
    "w5": (5, lambda a, b, c, d, e: a + 2 * b + 3 * c + 4 * d + 5 * e),
    "w6": (6, lambda a, b, c, d, e, f: a + 2 * b + 3 * c + 4 * d + 5 * e + 6 * f),
    "w7": (7, lambda a, b, c, d, e, f, g: a + 2 * b + 3 * c + 4 * d + 5 * e + 6 * f + 7 * g),
    "w8": (8, lambda a, b, c, d, e, f, g, h: a + 2 * b + 3 * c + 4 * d + 5 * e + 6 * f + 7 * g + 8 * h),
}

BINOPS = {
    "add": lambda a, b: a + b, "sub": lambda a, b: a - b,
    "mul": lambda a, b: a * b, "div": lambda a, b: a / b,
    "pow": lambda a, b: a ** b,
    "gt": lambda a, b: a > b, "ge": lambda a, b: a >= b,
    "lt": lambda a, b: a < b, "le": lambda a, b: a <= b,
    "and": lambda a, b: a & b, "or": lambda a, b: a | b,
}
NP_BINOPS = dict(BINOPS)
NP_BINOPS["and"] = lambda a, b: np.logical_and(a, b)
NP_BINOPS["or"] = lambda a, b: np.logical_or(a, b)
EXACT_OPS = ("add", "sub", "mul", "div", "gt", "ge", "lt", "le", "and", "or")

FLUX_LIMITERS = ("SUPERBEE", "MinMod", "VanLeer", "Koren")

# builder name -> (argument spec, result kind)
#   spec entries: 'v' cell var, 'f' face var, 'b' BC, 'm' mesh, 'FL' limiter name,
#   'dt' / 'alpha' scalars; result kinds: M, R, MR (tuple), BC (tuple, not a term
#   for term lists), f, v*, f*, d (plain data)
BUILDERS = {
    "diffusionTerm": (("f",), "M"),
    "convectionTerm": (("f",), "M"),
    "convectionUpwindTerm": (("f",), "M"),
    "convectionUpwindTerm2": (("f", "f"), "M"),
    "convectionTVDupwindRHSTerm": (("f", "v", "FL"), "R"),
    "convectionTVDupwindRHSTerm2": (("f", "v", "FL", "f"), "R"),
    "linearMean": (("v",), "f"), "arithmeticMean": (("v",), "f"),
    "geometricMean": (("v",), "f"), "harmonicMean": (("v",), "f"),
    "upwindMean": (("v", "f"), "f"), "tvdMean": (("v", "f", "FL"), "f"),
    "gradientTerm": (("v",), "f"), "gradientTermFixedBC": (("v",), "f"),
    "divergenceTerm": (("f",), "R"),
    "boundaryConditionsTerm": (("b",), "BC"),
    "linearSourceTerm": (("v",), "M"), "constantSourceTerm": (("v",), "R"),
    "transientTerm": (("v", "dt", "alpha"), "MR"),
    "cellLocations": (("m",), "v*"), "faceLocations": (("m",), "f*"),
    "plotprofile": (("v",), "d"), "domainIntegral": (("v",), "d"),
}
# classes on which the implementation forwards the second (upwind) argument
UPWIND2_CLASSES = ("Grid1D", "CylindricalGrid1D", "Grid2D")


class Ent:
    __slots__ = ("kind", "name", "obj", "snap", "der", "meta")

    def __init__(self, kind, name, obj, meta):
        self.kind = kind
        self.name = name
        self.obj = obj
        self.snap = None
        self.der = None
        self.meta = meta


class Ctx:
    def __init__(self, op):
        self.op = op
        self.status = "ok"
        self.written = set()     # names whose visible state the op may change
        self.derived = set()     # vars whose derived state the op may refresh freely
        self.created = []
        self.i3 = []             # vars to shadow-check
        self.i4 = []             # vars whose ghost layer was just (re)computed
        self.relation = {}       # name -> how it relates to the op (for signatures)
        self.fault = None


class FakeSolver:
    """The simulator's stand-in for an external sparse solver (the seam)."""

    def __init__(self, mode):
        self.mode = mode
        self.calls = []

    def __call__(self, M, RHS):
        self.calls.append((sp.csr_array(M, copy=True), np.array(RHS, copy=True)))
        if self.mode == "ext_raise":
            raise RuntimeError("injected external solver failure")
        if self.mode == "ext_scribble_raise":
            # a solver that reorders / rescales its inputs in place, then fails
            M.data[...] = 0.0
            RHS[...] = 0.0
            raise RuntimeError("injected external solver failure after scribbling")
        if self.mode == "ext_scribble":
            # a solver that works in place on the arrays it was handed
            self.ret = _scipy_spsolve(M.copy(), RHS.copy())
            M.data[...] = 0.0
            RHS[...] = 0.0
            return np.array(self.ret, copy=True)
        if self.mode == "ext_nan":
            self.ret = np.full(len(RHS), np.nan)
            return self.ret.copy()
        if self.mode == "ext_badshape":
            return np.zeros(len(RHS) + 1)
        if self.mode == "ext_mark":
            self.ret = np.linspace(1.0, 2.0, len(RHS))
            return self.ret.copy()
        self.ret = _scipy_spsolve(M, RHS)
        return np.array(self.ret, copy=True)


class InnerFault:
    """A third seam: the names cell.py imported from boundary.py
    (`boundaryConditionsTerm`, `cellValuesWithBoundaries`) are replaced for the
    duration of ONE library call by a wrapper that raises MemoryError on its n-th
    invocation - an allocation failure inside apply_BCs(), between the refresh of
    the ghost layer and the rebuild of the cached boundary term, or before either.
    If the library does not reach these functions through the patched names (any
    more) the wrapper never fires and the call simply runs unpatched."""
    TARGETS = {"alloc_cache": "boundaryConditionsTerm", "alloc_ghost": "cellValuesWithBoundaries"}

    def __init__(self, kind, nth):
        self.kind = kind
        self.nth = max(1, int(nth))
        self.calls = 0
        self.fired = False
        self.mod = A.cell_module()
        self.name = self.TARGETS[kind]
        self.orig = getattr(self.mod, self.name, None)

    def __enter__(self):
        if self.orig is None:
            return self
        orig = self.orig

        def wrapper(*args, **kw):
            self.calls += 1
            if self.calls == self.nth:
                self.fired = True
                raise MemoryError("injected allocation failure in %s" % self.name)
            return orig(*args, **kw)
        setattr(self.mod, self.name, wrapper)
        return self

    def __exit__(self, *exc):
        if self.orig is not None:
            setattr(self.mod, self.name, self.orig)
        return False


ALL_INV = ("I1", "I2", "I3", "I4", "I5", "I6", "I7", "I8")


class World:
    def __init__(self, cfg):
        self.pf = A.load()
        self.ps = A.pdesolver_module()
        self.cfg = cfg
        self.prop = cfg["prop"]
        self.inv = set(cfg.get("inv", ALL_INV))
        self.ents = {}            # name -> Ent (insertion ordered)
        self.step = -1
        self.events = []          # (op json, status, digest)
        self.notes = []           # non-gating violations
        self.stats = Counter()
        self.probes = Counter()
        self.trans = set()        # abstract protocol transitions reached
        self.oracle_runs = Counter()
        self.i3_other = cfg.get("i3_other", True)
        self.known = set(tuple(k) for k in cfg.get("known", ()))
        self.known_hits = Counter()
        self.canaries = None

    # ------------------------------------------------------------------ pools
    def get(self, name, kind=None):
        e = self.ents.get(name)
        if e is None or (kind is not None and e.kind not in kind):
            raise Skip("no %s %r" % (kind, name))
        return e

    def names(self, kind):
        return [n for n, e in self.ents.items() if e.kind == kind]

    def add(self, kind, name, obj, meta):
        e = Ent(kind, name, obj, meta)
        self.ents[name] = e
        self.resnap(e)
        return e

    def resnap(self, e):
        if e.kind == "m":
            e.snap = A.snap_mesh(e.obj)
        elif e.kind == "b":
            e.snap = A.snap_bc(e.obj)
            e.meta["state"] = A.read_bc(e.obj)
        elif e.kind == "v":
            e.snap, e.der = A.snap_cell(e.obj)
            e.meta["val"] = A.interior(e.obj)
        elif e.kind == "f":
            e.snap = A.snap_face(e.obj)
        elif e.kind in ("t", "d"):
            e.snap = A.snap_term(e.obj) if e.kind == "t" else self._snap_data(e.obj)
        elif e.kind == "w":
            e.snap = None

    @staticmethod
    def _snap_data(o):
        if isinstance(o, tuple):
            return tuple(A.akey(x) for x in o)
        return A.akey(np.asarray(o))

    def bc_name_of(self, bcobj):
        for n, e in self.ents.items():
            if e.kind == "b" and e.obj is bcobj:
                return n
        return None

    def mesh_of(self, e):
        return self.get(e.meta["mesh"], "m")

    def sharers(self, bname):
        return [n for n, e in self.ents.items()
                if e.kind == "v" and e.meta.get("bc") == bname]

    # ------------------------------------------------------------- violations
    def flag(self, prop, inv, sig, detail=None):
        """Raise when `prop` is the gating property of this check, else note."""
        if inv not in self.inv:
            return
        props = prop if isinstance(prop, tuple) else (prop,)
        prop = self.prop if self.prop in props else props[0]
        v = Violation(prop, inv, sig, dict(detail or {}, step=self.step))
        if prop == self.prop:
            if (prop, inv, sig) in self.known:
                # a listed known finding: report it, keep exploring past it
                self.known_hits[(prop, inv, sig)] += 1
                return
            raise v
        self.stats["note:" + prop + ":" + inv] += 1
        if len(self.notes) < 20:
            self.notes.append(v.as_dict())

    # ---------------------------------------------------------------- helpers
    def mesh_model(self, ment):
        return ment.meta["cls"], ment.meta["faces"]

    def twin_of(self, vent, interior=None):
        """Fresh variable from the model's visible state of `vent`.
        Returns (twin, None) or (None, exception type name)."""
        ment = self.mesh_of(vent)
        bent = self.get(vent.meta["bc"], "b")
        val = vent.meta["val"] if interior is None else interior
        try:
            return O.build_twin(self.pf, ment.obj, bent.meta["state"], val), None
        except Exception as e:   # e.g. radial periodic: documented ValueError
            return None, type(e).__name__

    def bcs_invalid(self, vent):
        """The variable's BCs are in the documented-error state (radial periodic)."""
        if vent is None or vent.kind != "v":
            return False
        b = self.ents.get(vent.meta.get("bc"))
        if b is None:
            return False
        return O.radial_periodic(self.mesh_of(vent).meta["cls"], b.meta["state"])

    @staticmethod
    def _numpy_also_raises(fn):
        """The numpy reference evaluation on the model's operand values raises
        too (e.g. unary minus on boolean face values): consistent behaviour."""
        try:
            fn()
        except Exception:
            return True
        return False

    def bc_ok(self, vent):
        ment = self.mesh_of(vent)
        bent = self.get(vent.meta["bc"], "b")
        cls, faces = self.mesh_model(ment)
        return not O.bc_degenerate(cls, faces, bent.meta["state"])

    def abstract_state(self, vent):
        """(#sharers class, origin, periodic axes, BC edited since last consume)."""
        b = self.ents.get(vent.meta.get("bc"))
        if b is None:
            return ("nobc",)
        ns = len(self.sharers(b.name))
        st = b.meta["state"]
        nd = len(self.mesh_of(vent).meta["faces"])
        per = tuple(O.axis_periodic(st, ax) for ax in range(nd))
        dirty_bc = b.meta.get("last_edit", -1) > vent.meta.get("last_consume", -1)
        dirty_val = vent.meta.get("last_val_edit", -1) > vent.meta.get("last_consume", -1)
        return (min(ns, 3), vent.meta.get("origin"), per, dirty_bc, dirty_val)

    # ------------------------------------------------------------------- exec
    def exec_op(self, op):
        self.step += 1
        ctx = Ctx(op)
        k = op["k"]
        # abstract transition coverage (before state, op kind)
        tgt = op.get("a", {}).get("v")
        if tgt in self.ents and self.ents[tgt].kind == "v":
            self.trans.add((self.abstract_state(self.ents[tgt]), k,
                            op.get("a", {}).get("how")))
        try:
            getattr(self, "op_" + k)(op.get("a", {}), op, ctx)
        except Skip:
            ctx.status = "noop"
        self.stats["op:" + k + (":noop" if ctx.status == "noop" else "")] += 1
        if ctx.status != "noop":
            self.after_op(ctx)
        dig = hsnap(tuple((n, self.ents[n].snap, self.ents[n].der)
                          for n in sorted(ctx.written | set(ctx.created))
                          if n in self.ents))
        self.events.append((jdump(op), ctx.status, dig))
        return ctx

    def after_op(self, ctx):
        # I8 alias checks for freshly created objects
        if "I8" in self.inv:
            for n in ctx.created:
                if n in self.ents:
                    self.check_alias(self.ents[n], ctx)
        # I1 frame condition over the whole pool
        self.check_frame(ctx)
        # refresh snapshots of everything the op was allowed to write
        for n in list(ctx.written) + list(ctx.derived) + ctx.created:
            if n in self.ents:
                self.resnap(self.ents[n])
        # I4 on freshly (re)computed ghost layers
        if "I4" in self.inv:
            for n in ctx.i4:
                if n in self.ents:
                    self.check_bc_relation(self.ents[n], ctx)
        # I3 coherence by shadow solve
        if "I3" in self.inv and self.cfg.get("i3_only_copies"):
            # C14: "copy() yields an equal variable" includes how it behaves in a solve
            if ctx.op["k"] == "copy":
                for n in ctx.created:
                    if n in self.ents and self.ents[n].kind == "v":
                        self.check_coherence(self.ents[n], ctx, prop=("C14", "C09"))
        elif "I3" not in self.inv and self.cfg.get("shadow") and ctx.op["k"] != "finish":
            # C03 / C04 / C12 / C15 have no coherence oracle of their own; what they
            # say about solvePDE holds for *every* call at *every* point of a history,
            # so the call is made on a deep copy of each affected variable right now
            todo = []
            for n in ctx.i3:
                if n in self.ents and self.ents[n].kind == "v" and n not in todo:
                    todo.append(n)
            for n in list(todo):
                for s_ in self.sharers(self.ents[n].meta.get("bc")):
                    if s_ not in todo:
                        todo.append(s_)
            for n in todo[:4]:
                self.check_shadow_contract(self.ents[n], ctx)
        elif "I3" in self.inv:
            todo = []
            for n in ctx.i3:
                if n in self.ents and self.ents[n].kind == "v" and n not in todo:
                    todo.append(n)
            for n in list(todo):
                b = self.ents[n].meta.get("bc")
                for s in self.sharers(b):
                    if s not in todo:
                        todo.append(s)
            if self.i3_other:
                others = [n for n in self.names("v") if n not in todo]
                if others:
                    todo.append(others[self.step % len(others)])
            for n in todo:
                self.check_coherence(self.ents[n], ctx)

    # ----------------------------------------------------------- I1 / frame
    def check_frame(self, ctx):
        if "I1" not in self.inv:
            return
        self.oracle_runs["I1"] += 1
        for n, e in list(self.ents.items()):
            if e.kind == "w" or n in ctx.created:
                continue
            if e.kind == "m":
                cur = A.snap_mesh(e.obj)
            elif e.kind == "b":
                cur = A.snap_bc(e.obj)
            elif e.kind == "f":
                cur = A.snap_face(e.obj)
            elif e.kind == "t":
                cur = A.snap_term(e.obj)
            elif e.kind == "d":
                continue
            else:
                cur, der = A.snap_cell(e.obj)
            if n not in ctx.written and cur != e.snap:
                prop, rel = self.attribute(ctx, e)
                sig = "%s/%s/%s" % (ctx.op["k"] + self._opsub(ctx.op), e.kind, rel)
                self.flag(prop, "I1", sig, {"changed": n, "op": ctx.op})
                self.resnap(e)      # follow the implementation, keep going
                continue
            if e.kind == "v" and n not in ctx.written and n not in ctx.derived \
                    and der != e.der:
                self.check_derived_refresh(e, der, ctx)

    @staticmethod
    def _opsub(op):
        a = op.get("a", {})
        for key in ("fn", "op", "how"):
            if key in a:
                return ":" + str(a[key])
        return ""

    def check_derived_refresh(self, e, der, ctx):
        """Derived state (ghost layer, cached boundary term) of a non-target
        changed.  At the solver entry points a lazy refresh to the coherent
        state is not a modification (it is what solveExplicitPDE does to its
        input); builders, operators and copy() are pure by contract: a builder
        that refreshes its argument makes the *next* builder call with the same
        visible inputs return something else (C15 "repeated calls with equal
        inputs return bit-identical results", C14 "never change their operands")."""
        twin, exc = self.twin_of(e)
        ok = False
        if ctx.op["k"] not in ("solve", "explicit", "apply", "bc_untracked", "finish"):
            twin = None
        if twin is not None:
            ok = same(A.full_array(e.obj), A.full_array(twin))
            c = A.cache_of(e.obj)
            if ok and c is not None:
                ct = A.cache_of(twin)
                ok = ct is not None and O.mat_equal(c[0], ct[0]) and same(c[1], ct[1])
        if not ok:
            prop, rel = self.attribute(ctx, e)
            sig = "%s/derived/%s" % (ctx.op["k"] + self._opsub(ctx.op), rel)
            self.flag(prop, "I1", sig, {"changed": e.name, "op": ctx.op})
        e.der = der

    def attribute(self, ctx, e):
        """Which property owns an unexpected change of `e` during this op."""
        k = ctx.op["k"]
        rel = ctx.relation.get(e.name)
        if rel is None:
            rel = "unrelated"
            ops = self._operands(ctx.op)
            if e.name in ops:
                rel = "operand"
            elif e.kind == "m" and any(
                    self.ents[o].meta.get("mesh") == e.name for o in ops if o in self.ents):
                rel = "mesh-of-operand"
            elif e.kind == "b" and any(
                    self.ents[o].meta.get("bc") == e.name for o in ops if o in self.ents):
                rel = "bc-of-operand"
            else:
                par = set(e.meta.get("parents", ()))
                for o in ops:
                    if o in par:
                        rel = "result-of"
                    oe = self.ents.get(o)
                    if oe is not None and e.name in oe.meta.get("parents", ()):
                        rel = "parent-of-target"
                    if oe is not None and oe.meta.get("bc") and \
                            e.name in self.ents.get(oe.meta["bc"], Ent("b", "", None, {})).meta.get("parents", ()):
                        rel = "parent-of-target"
        algebra = k in ("binop", "unop", "eval", "copy")
        if not algebra and k in ("bc_edit", "bc_util", "bc_periodic", "val_edit",
                                 "scribble", "view_write", "bc_scale", "bc_untracked"):
            # an edit leaked into another object: who made them alias?
            how = self._alias_origin(ctx, e)
            if how == "copy":
                return ("C14", "C09"), rel + "/via-copy"   # copies are independent (C09 too)
            if how in ("binop", "unop", "eval"):
                return "C14", rel + "/via-" + how
            return "C15", rel + ("/via-" + how if how else "")
        if k == "copy":
            return ("C14", "C09"), rel
        if algebra:
            return "C14", rel
        return "C15", rel

    def _alias_origin(self, ctx, e):
        """Creation kind linking the edited object and the changed one."""
        ops = self._operands(ctx.op)
        cand = [e] + [self.ents[o] for o in ops if o in self.ents]
        for x in cand:
            ck = x.meta.get("created_kind")
            if ck in ("binop", "unop", "eval", "copy"):
                return ck
        for x in cand:
            ck = x.meta.get("created_kind")
            if ck:
                return ck
        return None

    @staticmethod
    def _operands(op):
        out = []

        def walk(o):
            if isinstance(o, str):
                out.append(o)
            elif isinstance(o, dict):
                for v in o.values():
                    walk(v)
            elif isinstance(o, (list, tuple)):
                for v in o:
                    walk(v)
        walk(op.get("a", {}))
        return out

    # ----------------------------------------------------------- I8 / alias
    def check_alias(self, e, ctx):
        if e.kind == "v":
            mine = A.cell_arrays(e.obj)
        elif e.kind == "f":
            mine = A.face_arrays(e.obj)
        elif e.kind == "t":
            mine = A.term_arrays(e.obj)
        elif e.kind == "b":
            mine = A.bc_arrays(e.obj)
        else:
            return
        self.oracle_runs["I8"] += 1
        k = ctx.op["k"]
        prop = "C14" if k in ("binop", "unop", "eval") else "C15"
        if k == "copy":
            prop = ("C14", "C09")
        for n, o in self.ents.items():
            if n == e.name or o.kind in ("w", "d"):
                continue
            if n in ctx.created and e.kind == "v" and o.kind == "b" \
                    and e.meta.get("bc") == n:
                continue
            if o.kind == "m":
                theirs = A.mesh_arrays(o.obj)
            elif o.kind == "b":
                theirs = A.bc_arrays(o.obj)
            elif o.kind == "v":
                theirs = A.cell_arrays(o.obj)
            elif o.kind == "f":
                theirs = A.face_arrays(o.obj)
            else:
                theirs = A.term_arrays(o.obj)
            for an, a in mine:
                for bn, b in theirs:
                    if an.startswith("cache.") and bn.startswith("cache."):
                        # two variables holding the same cached boundary system
                        # (e.g. a cache kept once per BC object) is an internal
                        # choice no user-visible array takes part in; whether it is
                        # coherent is judged by the shadow solves
                        continue
                    if shares(a, b):
                        fam = self._family(e)
                        sig = "%s/%s/%s" % (k + self._opsub(ctx.op), fam,
                                            o.kind + ":" + bn)
                        self.flag(prop, "I8", sig,
                                  {"new": e.name, "array": an, "with": n, "their": bn,
                                   "op": ctx.op})
                        return

    def _family(self, e):
        m = self.ents.get(e.meta.get("mesh"))
        if m is None:
            return "?"
        return "%dD" % len(m.meta["faces"])

    # ------------------------------------------------------------ I4 / C03
    def check_bc_relation(self, e, ctx):
        if not e.meta.get("ghost_trusted", True):
            return
        ment = self.mesh_of(e)
        bent = self.ents.get(e.meta.get("bc"))
        if bent is None:
            return
        cls, faces = self.mesh_model(ment)
        st = bent.meta["state"]
        if O.bc_degenerate(cls, faces, st) or O.radial_periodic(cls, st):
            self.stats["i4:skipped-degenerate"] += 1
            return
        full = A.full_array(e.obj)
        if not np.all(np.isfinite(A.interior(e.obj))):
            self.stats["i4:skipped-nonfinite"] += 1
            return
        self.oracle_runs["I4"] += 1
        nd = len(faces)
        flags = "".join("P" if O.axis_periodic(st, ax) else "-" for ax in range(nd))
        self.probes["i4:flags:" + cls + ":" + flags] += 1
        bad = O.bc_relation_failures(cls, faces, st, full)
        opk = ctx.op["k"] + self._opsub(ctx.op)
        if bad:
            ax, kind, side, res = bad[0]
            sig = "%s/%s/axis%d/%s/%s" % (cls, ctx.op["k"], ax, kind, flags)
            self.flag("C03", "I4", sig, {"var": e.name, "side": side, "residual": res,
                                         "all": bad[:6]})
            return
        # after apply_BCs the solver's boundary equations follow the stored (a, b, c)
        # too: observable only through a solve, taken on a deep copy
        if self.prop == "C03" and ctx.op["k"] in ("apply", "bc_untracked") \
                and not e.meta.get("noprecalc") and np.all(np.isfinite(full)):
            tw, _ = self.twin_of(e)
            if tw is not None:
                try:
                    terms = self.shadow_terms(tw, ment.obj)
                    sh = copy.deepcopy(e.obj)
                    self.pf.solvePDE(tw, terms)
                    self.pf.solvePDE(sh, terms)
                    okk = same(A.full_array(sh), A.full_array(tw))
                except Exception:
                    okk = True
                self.oracle_runs["I4-solver-rows"] += 1
                if not okk:
                    self.flag("C03", "I4", "%s/%s/solver-rows/%s" % (cls, ctx.op["k"], flags),
                              {"var": e.name})
                    return
        # plot profile boundary entries are the face averages
        try:
            prof = e.obj.plotprofile()
        except Exception as ex:
            self.flag("C03", "I4", "%s/%s/plotprofile-raises" % (cls, ctx.op["k"]),
                      {"exc": repr(ex)})
            return
        try:
            phi0 = np.asarray(prof[-1], dtype=float)
            if phi0.shape != full.shape:
                raise ValueError("profile shape %r" % (phi0.shape,))
        except Exception as ex:
            self.flag("C03", "I4", "%s/%s/plotprofile-malformed" % (cls, ctx.op["k"]),
                      {"exc": repr(ex)})
            return
        for side in A.SIDES:
            if A.SIDE_AXIS[side] >= nd:
                continue
            g, p = O.side_layers(full, side)
            pg, _ = O.side_layers(phi0, side) if nd > 1 else (phi0[0 if A.SIDE_LOW[side] else -1], None)
            if not same(np.asarray(pg), 0.5 * (np.asarray(g) + np.asarray(p)), 1e-12):
                self.flag("C03", "I4", "%s/%s/plotprofile/%s" % (cls, ctx.op["k"], side),
                          {"var": e.name})
                return
        # the solver's boundary rows encode the same relation
        try:
            Mbc, Rbc = self.pf.boundaryConditionsTerm(bent.obj)
        except Exception as ex:
            self.flag("C03", "I4", "%s/%s/bcterm-raises" % (cls, ctx.op["k"]),
                      {"exc": repr(ex)})
            return
        r = Mbc @ full.ravel() - Rbc
        absM = abs(Mbc) @ np.abs(full.ravel()) + np.abs(Rbc)
        rows = O.face_ghost_rows([len(f) - 1 for f in faces])
        for side, idx in rows.items():
            ax = A.SIDE_AXIS[side]
            if O.axis_periodic(st, ax):
                f = faces[ax]
                if abs((f[1] - f[0]) - (f[-1] - f[-2])) > 1e-12 * abs(f[-1] - f[0]):
                    continue     # non-uniform periodic axis: not judged (DESIGN I4)
            q = np.abs(r[idx]) / np.where(absM[idx] > 0, absM[idx], 1.0)
            if q.size and not (np.all(np.isfinite(q)) and q.max() <= 1e-9):
                self.flag("C03", "I4", "%s/%s/axis%d/bcrows/%s" % (cls, ctx.op["k"], ax, flags),
                          {"var": e.name, "side": side, "residual": float(np.nanmax(q))})
                return

    # ------------------------------------------------------------ I3 / C09
    def shadow_terms(self, twin, mesh):
        pf = self.pf
        Mt, Rt = pf.transientTerm(twin, 0.37, 1.0)
        Md = pf.diffusionTerm(pf.FaceVariable(mesh, 1.0))
        return [(Mt, Rt), -Md]

    def expected_solves(self, e):
        """What a freshly constructed variable returns for the two probe solves."""
        pf = self.pf
        ment = self.mesh_of(e)
        out = {}
        tw, exc = self.twin_of(e)
        if tw is None:
            return {"imp": ("raise", exc), "exp": ("raise", exc)}, None, None
        terms = self.shadow_terms(tw, ment.obj)
        n = int(np.prod(np.asarray(ment.obj.dims) + 2))
        rhs = np.linspace(-1.0, 1.0, n)
        try:
            pf.solvePDE(tw, terms)
            out["imp"] = ("ok", np.array(A.full_array(tw), copy=True))
        except Exception as ex:
            out["imp"] = ("raise", type(ex).__name__)
        tw2, _ = self.twin_of(e)
        try:
            r = pf.solveExplicitPDE(tw2, 0.05, rhs)
            out["exp"] = ("ok", np.array(A.full_array(r), copy=True))
        except Exception as ex:
            out["exp"] = ("raise", type(ex).__name__)
        return out, terms, rhs

    def check_coherence(self, e, ctx, prop="C09"):
        if e.meta.get("bc") not in self.ents:
            return
        if not self.bc_ok(e):
            self.stats["i3:skipped-degenerate"] += 1
            return
        pf = self.pf
        exp, terms, rhs = self.expected_solves(e)
        self.oracle_runs["I3"] += 1
        st = self.abstract_state(e)
        if st[3]:
            self.probes["i3:checked-while-bc-dirty"] += 1
        if st[4]:
            self.probes["i3:checked-while-value-dirty"] += 1
        if st[0] >= 2:
            self.probes["i3:checked-shared"] += 1
        for mode in ("imp", "exp"):
            if mode == "imp" and e.meta.get("noprecalc") and A.cache_of(e.obj) is None:
                continue        # built with BCsTerm_precalc=False: not a solvePDE variable
            sh = copy.deepcopy(e.obj)
            try:
                if mode == "imp":
                    if terms is None:
                        tw0 = None
                        # twin cannot be built: probe with terms from the shadow's mesh
                        Md = pf.diffusionTerm(pf.FaceVariable(sh.domain, 1.0))
                        t = [-Md]
                    else:
                        t = terms
                    pf.solvePDE(sh, t)
                    got = ("ok", A.full_array(sh))
                else:
                    if rhs is None:
                        n = int(np.prod(np.asarray(sh.domain.dims) + 2))
                        rhs = np.linspace(-1.0, 1.0, n)
                    r = pf.solveExplicitPDE(sh, 0.05, rhs)
                    got = ("ok", A.full_array(r))
            except Exception as ex:
                got = ("raise", type(ex).__name__)
            want = exp[mode]
            if want[0] == "raise":
                if got[0] != "raise":
                    # the fresh start is rejected (documented error) but the
                    # object with history is accepted: it is using stale state
                    self.flag(prop, "I3", "accepts-invalid/" + mode,
                              {"var": e.name, "want": want[1]})
                    return
                continue
            if got[0] == "raise":
                sig = "raises/origin=%s" % e.meta.get("origin")
                self.flag(prop, "I3", sig, {"var": e.name, "mode": mode, "exc": got[1],
                                             "after_fault": ctx.fault})
                return
            if not same(got[1], want[1]):
                sig = self.stale_signature(e, ctx)
                self.flag(prop, "I3", sig, {"var": e.name, "mode": mode,
                                             "maxdiff": maxdiff(got[1], want[1])})
                return

    def check_shadow_contract(self, e, ctx):
        """solvePDE on a deep copy of `e` (carrying all hidden state) with a fixed
        well-posed term list, judged by the oracle of the property being checked:
        the stored solution solves the system the harness assembles independently
        from a fresh boundary term and the same terms (C04 I5, C15 determinism),
        with the transient part re-derived (C12 I6), and is consistent with the
        boundary values the copy then reports (C03 I4)."""
        if e.meta.get("bc") not in self.ents or e.meta.get("noprecalc"):
            return
        if not self.bc_ok(e) or self.bcs_invalid(e):
            return
        if not np.all(np.isfinite(e.meta["val"])):
            return
        pf = self.pf
        ment = self.mesh_of(e)
        tw, _ = self.twin_of(e)
        if tw is None:
            return
        try:
            dt_, al_ = 0.37, 1.0
            Mt, Rt = pf.transientTerm(tw, dt_, al_)
            Md = pf.diffusionTerm(pf.FaceVariable(ment.obj, 1.0))
            terms = [(Mt, Rt), -Md]
            inner, ghost = O.interior_index(ment.obj.dims)
            n = inner.size + ghost.size
            diag = np.zeros(n)
            diag[inner] = al_ / dt_
            rhs_t = np.zeros(n)
            rhs_t[inner] = (al_ * np.asarray(e.meta["val"], dtype=float) / dt_).ravel()
            Mbc, Rbc = pf.boundaryConditionsTerm(tw.BCs)
            M, RHS = O.assemble(Mbc, Rbc, [((sp.diags_array(diag, format="csr"), rhs_t), False, None),
                                           (Md, True, None)])
            x_exp = _scipy_spsolve(M, RHS)
        except Exception:
            return
        if not (np.all(np.isfinite(x_exp)) and np.all(np.isfinite(M.data)) and np.all(np.isfinite(RHS))):
            return
        sh = copy.deepcopy(e.obj)
        self.oracle_runs["shadow-contract"] += 1
        origin = e.meta.get("origin")
        try:
            ret = pf.solvePDE(sh, terms)
        except Exception as ex:
            det = {"var": e.name, "exc": repr(ex), "in": "shadow-solve"}
            self.flag("C04", "I5", "solve-raises/origin=%s" % origin, det)
            self.flag("C12", "I6", "transient/step-raises/origin=%s" % origin, det)
            self.flag("C03", "I4", "%s/shadow-solve-raises" % ment.meta["cls"], det)
            self.flag("C15", "I7", "solvePDE/raises-depending-on-call-history", det)
            return
        nd = len(ment.meta["faces"])
        shp = tuple(int(d) + 2 for d in ment.obj.dims)
        xe = np.reshape(x_exp, shp)
        xc = np.array(xe, copy=True)
        xc[(slice(1, -1),) * nd] = A.interior(sh)
        r1 = O.backward_residual(M, RHS, xc)
        r0 = O.backward_residual(M, RHS, xe)
        if np.isfinite(r0) and (not np.isfinite(r1) or r1 > max(1e-9, 1e3 * r0)):
            det = {"var": e.name, "residual": r1, "reference_residual": r0, "in": "shadow-solve",
                   "after_fault": ctx.fault}
            self.flag("C04", "I5", "assembly", det)
            self.flag("C12", "I6", "transient/step-equation", det)
            self.flag("C15", "I7", "solvePDE/result-depends-on-call-history", det)
            self.flag("C03", "I4", "%s/solve/interior-vs-solver-rows" % ment.meta["cls"], det)
            return
        if ret is not sh:
            self.flag("C04", "I5", "identity", {"var": e.name, "in": "shadow-solve"})
        if self.prop in ("C12", "C03"):
            # the explicit step on another deep copy: old + dt*RHS on interior cells,
            # boundary values re-imposed for the current BCs, input untouched
            sh2 = copy.deepcopy(e.obj)
            old_int = A.interior(sh2)
            rhs = np.linspace(-1.0, 1.0, n)
            try:
                r2 = pf.solveExplicitPDE(sh2, 0.05, rhs)
            except Exception as ex:
                self.flag("C12", "I6", "explicit/step-raises/origin=%s" % origin,
                          {"var": e.name, "exc": repr(ex), "in": "shadow-explicit"})
                r2 = None
            if r2 is not None:
                st = self.ents[e.meta["bc"]].meta["state"]
                cls, faces = self.mesh_model(ment)
                want = old_int + 0.05 * np.reshape(rhs, shp)[(slice(1, -1),) * nd]
                if not same(A.interior(r2), want, 1e-12):
                    self.flag("C12", "I6", "explicit/update-formula", {"var": e.name, "in": "shadow-explicit"})
                elif not exact(A.interior(sh2), old_int):
                    self.flag("C12", "I6", "explicit/input-modified", {"var": e.name, "in": "shadow-explicit"})
                else:
                    bad = O.bc_relation_failures(cls, faces, st, A.full_array(r2))
                    if bad:
                        flags = "".join("P" if O.axis_periodic(st, ax) else "-" for ax in range(nd))
                        self.flag("C12", "I6", "explicit/bc-relation/axis%d/%s" % (bad[0][0], bad[0][1]),
                                  {"var": e.name, "side": bad[0][2], "in": "shadow-explicit"})
                        self.flag("C03", "I4", "%s/shadow-explicit/axis%d/%s/%s"
                                  % (cls, bad[0][0], bad[0][1], flags), {"var": e.name, "side": bad[0][2]})
        if self.prop == "C03":
            # the boundary values the copy reports after the solve satisfy the relation
            st = self.ents[e.meta["bc"]].meta["state"]
            cls, faces = self.mesh_model(ment)
            bad = O.bc_relation_failures(cls, faces, st, A.full_array(sh))
            if bad:
                flags = "".join("P" if O.axis_periodic(st, ax) else "-" for ax in range(nd))
                self.flag("C03", "I4", "%s/shadow-solve/axis%d/%s/%s" % (cls, bad[0][0], bad[0][1], flags),
                          {"var": e.name, "side": bad[0][2], "residual": bad[0][3]})

    def stale_signature(self, e, ctx):
        b = self.ents[e.meta["bc"]]
        lc = e.meta.get("last_consume", -1)
        le = b.meta.get("last_edit", -1)
        if ctx.fault or e.meta.get("faulted_at", -1) >= max(lc, le):
            return "after-fault/%s" % (ctx.fault or e.meta.get("fault_kind"))
        sib = [self.ents[s].meta.get("last_consume", -1)
               for s in self.sharers(b.name) if s != e.name]
        if le > lc:
            if any(s > le for s in sib):
                return "stale/shared-bit-consumed-by-sibling"
            return "stale/own-edit/%s" % b.meta.get("last_edit_kind")
        if e.meta.get("last_val_edit", -1) > lc:
            return "stale/value-edit/%s" % e.meta.get("last_val_kind")
        return "stale/no-edit"

    # --------------------------------------------------------------- op: mesh
    def op_mesh(self, a, op, ctx):
        pf = self.pf
        cls = a["cls"]
        ctor = getattr(pf, cls)
        if a["form"] == "faces":
            args = [np.array(f, dtype=float) for f in a["faces"]]
            if any(len(x) < 2 or np.any(np.diff(x) <= 0) for x in args):
                raise Skip("bad faces")
        else:
            args = [int(n) for n in a["N"]] + [float(L) for L in a["L"]]
            if any(int(n) < 1 for n in a["N"]):
                raise Skip("bad N")
        try:
            m = ctor(*args)
        except Exception as ex:
            ctx.status = "raised:" + type(ex).__name__
            return
        faces = O.faces_from_op(a)
        self.add("m", op["out"], m, {"cls": cls, "faces": faces, "form": a["form"]})
        ctx.created.append(op["out"])
        self.probes["mesh:" + cls] += 1
        if a.get("regraded_from"):
            self.probes["mesh:regraded-twin"] += 1

    def op_bc(self, a, op, ctx):
        ment = self.get(a["m"], "m")
        bc = self.pf.BoundaryConditions(ment.obj)
        self.add("b", op["out"], bc, {"mesh": ment.name, "last_edit": -1,
                                      "created_kind": "bc"})
        ctx.created.append(op["out"])

    # ---------------------------------------------------------------- op: var
    def register_var(self, name, v, mesh_name, origin, ctx, parents=(), bc_out=None,
                     created_kind=None, ghost_trusted=True, expect_new_bc=False):
        bname = self.bc_name_of(v.BCs)
        if bname is None:
            bname = bc_out or (name + "_bc")
            self.add("b", bname, v.BCs, {"mesh": mesh_name, "last_edit": -1,
                                         "parents": tuple(parents),
                                         "created_kind": created_kind})
            ctx.created.append(bname)
        elif expect_new_bc:
            det = {"new": name, "bc": bname, "op": ctx.op}
            self.flag(("C14", "C09") if created_kind == "copy" else
                      "C14" if created_kind in ("binop", "unop", "eval") else "C15",
                      "I2" if created_kind in ("binop", "unop", "eval", "copy") else "I8",
                      "%s/identity/bc-object-shared" % created_kind, det)
            if created_kind in ("binop", "unop", "eval", "copy") and self.prop in ("C12", "C09", "C04", "C03"):
                # a derived field (alpha/dt, 2*phi + 1, a snapshot taken with copy()) that
                # shares the BoundaryConditions object of its operand: an edit of either
                # one's BCs silently changes the problem the other one is stepped with
                self.flag(self.prop, "I1", "%s/result-shares-bcs-with-operand" % created_kind, det)
        e = self.add("v", name, v, {"mesh": mesh_name, "bc": bname, "origin": origin,
                                    "last_consume": self.step, "parents": tuple(parents),
                                    "created_kind": created_kind,
                                    "ghost_trusted": ghost_trusted})
        ctx.created.append(name)
        return e

    def op_var(self, a, op, ctx):
        pf = self.pf
        ment = self.get(a["m"], "m")
        dims = np.asarray(ment.obj.dims)
        ghosts = bool(a.get("ghosts"))
        if a.get("scalar"):
            val = float(a["val"]["x"]) if a["val"]["d"] == "const" else 1.0
        else:
            val = materialize(a["val"], dims + 2 if ghosts else dims)
            if a.get("dtype") == "int":
                val = np.rint(val).astype(np.int64)
                self.probes["var:integer-array-input" + (":with-ghosts" if ghosts else "")] += 1
        args = [ment.obj, val]
        origin = "default"
        if a.get("bc") or a.get("bcv"):
            bent = self.get(a["bc"] if a.get("bc") else self.get(a["bcv"], "v").meta["bc"], "b")
            if bent.meta["mesh"] != ment.name:
                raise Skip("bc on other mesh")
            args.append(bent.obj)
            origin = "given-BC"
        if ghosts:
            origin = "with-ghosts"
        try:
            if a.get("noprecalc"):
                v = pf.CellVariable(*args, BCsTerm_precalc=False)
                self.probes["var:BCsTerm_precalc-False"] += 1
            else:
                v = pf.CellVariable(*args)
        except Exception as ex:
            ctx.status = "raised:" + type(ex).__name__
            self.stats["fault-fired:ctor-raises"] += 1
            return
        e = self.register_var(op["out"], v, ment.name, origin, ctx,
                              bc_out=op.get("outb"), created_kind="var",
                              ghost_trusted=not ghosts)
        if a.get("noprecalc"):
            e.meta["noprecalc"] = True
        ctx.i3.append(e.name)
        if not ghosts:
            ctx.i4.append(e.name)

    def op_face(self, a, op, ctx):
        pf = self.pf
        ment = self.get(a["m"], "m")
        m = ment.obj
        if "scalar" in a:
            f = pf.FaceVariable(m, float(a["scalar"]))
        else:
            shapes = self.face_shapes(m)
            comps = [materialize(d, s) if s != (0,) else np.array([])
                     for d, s in zip(a["val"], shapes)]
            f = pf.FaceVariable(m, *comps)
        self.add("f", op["out"], f, {"mesh": ment.name, "created_kind": "face"})
        ctx.created.append(op["out"])

    @staticmethod
    def face_shapes(m):
        d = [int(x) for x in m.dims]
        if len(d) == 1:
            return [(d[0] + 1,), (0,), (0,)]
        if len(d) == 2:
            return [(d[0] + 1, d[1]), (d[0], d[1] + 1), (0,)]
        return [(d[0] + 1, d[1], d[2]), (d[0], d[1] + 1, d[2]), (d[0], d[1], d[2] + 1)]

    # ------------------------------------------------------------ op: BC edits
    def _bc_name(self, a):
        """BC entry addressed by an op: by name ("b") or through a variable
        ("bv": `v.BCs...`), which is how stratified plans follow a re-bound role."""
        if "bv" in a:
            return self.get(a["bv"], "v").meta["bc"]
        return a["b"]

    def _bc_face(self, a):
        bent = self.get(self._bc_name(a), "b")
        nd = len(self.get(bent.meta["mesh"], "m").meta["faces"])
        side = a["side"]
        if A.SIDE_AXIS[side] >= nd:
            raise Skip("side not on this mesh")
        return bent, getattr(bent.obj, side)

    def _mark_bc_edit(self, bent, kind, ctx):
        bent.meta["last_edit"] = self.step
        bent.meta["last_edit_kind"] = kind
        side = ctx.op.get("a", {}).get("side")
        if side:
            bent.meta["last_edit_side"] = side
        ctx.written.add(bent.name)
        for s in self.sharers(bent.name):
            ctx.i3.append(s)

    @staticmethod
    def _val(d, shape):
        if d.get("scalar"):
            return float(d["x"])
        return materialize(d, shape)

    def op_bc_edit(self, a, op, ctx):
        bent, face = self._bc_face(a)
        coef = a["coef"]
        how = a["how"]
        arr = getattr(face, coef)
        shape = arr.shape
        ref = np.array(arr, copy=True).view(np.ndarray)
        try:
            if how == "assign":
                setattr(face, coef, self._val(a["val"], shape))
            elif how == "full":
                arr[:] = self._val(a["val"], shape)
            elif how == "slice":
                sl = rslices(a["sl"], shape)
                arr[sl] = self._val(a["val"], arr[sl].shape)
            elif how == "item2":
                sl = rslices(a["sl"], shape)
                sub = arr[sl[0]]
                if sub.ndim > 1:
                    sl2 = (slice(None),) + rslices(a["sl"][1:], sub.shape[1:])
                else:
                    sl2 = rslices(a.get("sl2", [[0, 0]]), sub.shape)
                sub[sl2] = self._val(a["val"], sub[sl2].shape)
                self.probes["edit:view-of-view"] += 1
            elif how == "imul":
                k = float(a["k"])
                tmp = getattr(face, coef)
                tmp *= k
                setattr(face, coef, tmp)
            elif how == "mask":
                m_ = np.asarray(arr) > float(a["t"])
                arr[m_] = float(a["x"])
            else:
                raise Skip("unknown how")
        except Skip:
            raise
        except Exception as ex:
            ctx.status = "raised:" + type(ex).__name__
            ctx.fault = "bad_shape_assign"
            self.stats["fault-fired:bad_shape_assign"] += 1
        else:
            # the coefficient now reads back what the same numpy operation stores
            try:
                if how in ("assign", "full"):
                    ref[...] = self._val(a["val"], shape)
                elif how == "slice":
                    sl = rslices(a["sl"], shape)
                    ref[sl] = self._val(a["val"], ref[sl].shape)
                elif how == "item2":
                    sl = rslices(a["sl"], shape)
                    sub = ref[sl[0]]
                    if sub.ndim > 1:
                        sl2 = (slice(None),) + rslices(a["sl"][1:], sub.shape[1:])
                    else:
                        sl2 = rslices(a.get("sl2", [[0, 0]]), sub.shape)
                    sub[sl2] = self._val(a["val"], sub[sl2].shape)
                elif how == "imul":
                    ref *= float(a["k"])
                elif how == "mask":
                    ref[ref > float(a["t"])] = float(a["x"])
                self.oracle_runs["edit-effect"] += 1
                if not exact(np.asarray(getattr(face, coef)), ref):
                    self.flag("C09", "I3", "edit-lost/bc_edit:%s" % how,
                              {"bc": bent.name, "side": a["side"], "coef": coef})
            except Violation:
                raise
            except BaseException:
                pass
        self._mark_bc_edit(bent, how, ctx)

    def op_bc_badshape(self, a, op, ctx):
        """fault: assign an array of the wrong shape to a coefficient."""
        bent, face = self._bc_face(a)
        arr = getattr(face, a["coef"])
        wrong = np.full(tuple(s + 1 for s in arr.shape) + (2,), 3.25)
        try:
            setattr(face, a["coef"], wrong)
            ctx.status = "ok-unexpected"
        except Exception as ex:
            ctx.status = "raised:" + type(ex).__name__
            ctx.fault = "bad_shape_assign"
            self.stats["fault-fired:bad_shape_assign"] += 1
            if bent.meta.get("last_edit", -1) > min(
                    [self.ents[s].meta.get("last_consume", -1) for s in self.sharers(bent.name)] or [10**9]):
                self.probes["fault-while-target-dirty"] += 1
        self._mark_bc_edit(bent, "badshape", ctx)

    def op_bc_util(self, a, op, ctx):
        bent, face = self._bc_face(a)
        fn = a["fn"]
        shape = face.c.shape
        want = None      # documented (a, b, c), defined up to a non-zero factor per face
        try:
            if fn == "defaultNoFlux":
                want = (1.0, 0.0, 0.0)
                face.defaultNoFlux()
            elif fn == "fixedValue":
                if a.get("wrong_shape"):
                    face.fixedValue(np.full(tuple(s + 1 for s in shape) + (2,), 1.5))
                else:
                    val = self._val(a["val"], shape)
                    want = (0.0, 1.0, np.array(val, copy=True))
                    face.fixedValue(val)
            elif fn == "fixedGradient" and a.get("wrong_shape"):
                face.fixedGradient(np.full(tuple(s_ + 1 for s_ in shape) + (2,), 0.75))
            elif fn == "fixedGradient":
                val = self._val(a["val"], shape)
                want = (1.0, 0.0, np.array(val, copy=True))
                if "scale" in a:
                    face.fixedGradient(val, float(a["scale"]))
                    self.probes["util:fixedGradient-scale_coeffs"] += 1
                else:
                    face.fixedGradient(val)
            elif fn == "newtonCooling":
                k_, h_, T_ = float(a["kk"]), float(a["h"]), float(a["T"])
                he = -h_ if a.get("rev") else h_
                want = (k_, he, he * T_)
                face.newtonCooling(k_, h_, T_, reverse_direction=bool(a.get("rev")))
            else:
                raise Skip("unknown util")
        except Skip:
            raise
        except Exception as ex:
            ctx.status = "raised:" + type(ex).__name__
            ctx.fault = "partial_utility"
            self.stats["fault-fired:partial_utility"] += 1
            want = None
        self._mark_bc_edit(bent, fn, ctx)
        if want is not None and "I4" in self.inv:
            # the condition now configured on this side is the documented one; any
            # non-zero rescaling of (a, b, c) is the same condition (C03)
            self.oracle_runs["I4-utility"] += 1
            got = [np.asarray(getattr(face, c_), dtype=float).reshape(-1) for c_ in "abc"]
            ref = [np.broadcast_to(np.asarray(w_, dtype=float).reshape(-1) if np.ndim(w_)
                                   else float(w_), got[0].shape) for w_ in want]
            G = np.stack(got, axis=1)
            Rf = np.stack(ref, axis=1)
            # parallel face by face: cross product vanishes, and neither is the zero triple
            cr = np.cross(G, Rf)
            sc = (np.linalg.norm(G, axis=1) * np.linalg.norm(Rf, axis=1))
            bad = (np.linalg.norm(cr, axis=1) > 1e-12 * np.maximum(sc, 1e-300)) | \
                  ((np.linalg.norm(G, axis=1) == 0) != (np.linalg.norm(Rf, axis=1) == 0))
            if G.size and bool(np.any(bad)):
                self.flag("C03", "I4", "util/%s%s" % (fn, "/scale_coeffs" if "scale" in a else ""),
                          {"bc": bent.name, "side": a["side"]})

    def op_bc_util_var(self, a, op, ctx):
        """A utility-method edit addressed through a variable (`v.BCs.left...`)."""
        vent = self.get(a["v"], "v")
        self.op_bc_util(dict(a, b=vent.meta["bc"]), op, ctx)

    def op_bc_periodic(self, a, op, ctx):
        bent, face = self._bc_face(a)
        face.periodic = bool(a["on"])
        ment = self.get(bent.meta["mesh"], "m")
        if bool(a["on"]) and A.SIDE_AXIS[a["side"]] == 0 and ment.meta["cls"] in A.RADIAL:
            self.stats["fault-armed:radial_periodic"] += 1
        if A.SIDE_AXIS[a["side"]] == 2 and bool(a["on"]):
            self.probes["periodic:z-axis-on"] += 1
        self._mark_bc_edit(bent, "periodic", ctx)

    def op_bc_scale(self, a, op, ctx):
        """C03: multiplying (a, b, c) of a side by any non-zero factor (here a
        scalar or a per-face array, either sign) changes nothing in the solution
        nor in the reported boundary values."""
        bent, face = self._bc_face(a)
        shape = np.asarray(face.c).shape
        k = self._val(a["k"], shape)
        if a.get("neg"):
            k = -k
        if np.any(np.asarray(k) == 0) or not np.all(np.isfinite(k)):
            raise Skip("zero factor")
        ment = self.get(bent.meta["mesh"], "m")
        cls, faces = self.mesh_model(ment)
        judge = "I4" in self.inv and not O.bc_degenerate(cls, faces, bent.meta["state"]) \
            and not O.radial_periodic(cls, bent.meta["state"])
        before = []
        if judge:
            for s in self.sharers(bent.name)[:2]:
                ve = self.ents[s]
                if ve.meta.get("noprecalc") or not np.all(np.isfinite(ve.meta["val"])):
                    continue
                tw, _ = self.twin_of(ve)
                if tw is None:
                    continue
                try:
                    terms = self.shadow_terms(tw, ment.obj)
                    sh = copy.deepcopy(ve.obj)
                    self.pf.solvePDE(sh, terms)
                    self.pf.solvePDE(tw, terms)
                    before.append((s, terms, np.array(A.full_array(tw), copy=True),
                                   np.array(A.full_array(sh), copy=True)))
                except Exception:
                    continue
        for coef in "abc":
            setattr(face, coef, np.asarray(getattr(face, coef), dtype=float) * k)
        self._mark_bc_edit(bent, "scale3", ctx)
        self.probes["edit:scale3" + (":negative" if np.any(np.asarray(k) < 0) else "")] += 1
        if not judge:
            return
        st_new = A.read_bc(bent.obj)
        for s, terms, x_tw, x_sh in before:
            ve = self.ents[s]
            self.oracle_runs["I4-scale"] += 1
            try:
                tw2 = O.build_twin(self.pf, ment.obj, st_new, ve.meta["val"])
                self.pf.solvePDE(tw2, terms)
                sh2 = copy.deepcopy(ve.obj)
                self.pf.solvePDE(sh2, terms)
            except Exception as ex:
                self.flag("C03", "I4", "%s/scale3/raises" % cls, {"var": s, "exc": repr(ex)})
                return
            if not same(A.full_array(tw2), x_tw, 1e-9):
                self.flag("C03", "I4", "%s/scale3/fresh-solution-changed" % cls,
                          {"var": s, "maxdiff": maxdiff(A.full_array(tw2), x_tw)})
                return
            if not same(A.full_array(sh2), x_sh, 1e-9):
                self.flag("C03", "I4", "%s/scale3/solution-changed" % cls,
                          {"var": s, "maxdiff": maxdiff(A.full_array(sh2), x_sh)})
                return

    def op_bc_untracked(self, a, op, ctx):
        """A coefficient array is changed by an operation the dirty-bit tracking
        documents it cannot see (arr.fill, np.copyto, in-place ufunc with out=),
        immediately followed by one of the two documented remedies: setting
        `arr.modified = True` by hand, or calling apply_BCs() on the variables that
        use these BCs (C03: after apply_BCs the ghost values *and* the solver's
        boundary equations follow whatever a, b, c are now stored)."""
        bent, face = self._bc_face(a)
        arr = getattr(face, a["coef"])
        how = a["how"]
        val = self._val(a["val"], arr.shape)
        if how == "fill":
            arr.fill(float(np.asarray(val).ravel()[0]))
        elif how == "copyto":
            np.copyto(arr, val)
        elif how == "ufunc_out":
            np.add(np.asarray(val) - np.asarray(arr), arr, out=arr)
        elif how == "put":
            np.put(arr, np.arange(arr.size), np.broadcast_to(val, arr.shape).ravel())
        else:
            raise Skip("unknown how")
        self._mark_bc_edit(bent, "untracked-" + how, ctx)
        self.probes["edit:untracked:" + how + ":" + a.get("remedy", "apply")] += 1
        if a.get("remedy") == "flag":
            arr.modified = True
            return
        for s in self.sharers(bent.name):
            ve = self.ents[s]
            try:
                ve.obj.apply_BCs()
            except Exception as ex:
                ctx.status = "raised:" + type(ex).__name__
                self._note_consumer_fault(ve, ctx)
            else:
                ve.meta["ghost_trusted"] = True
                ctx.i4.append(s)
            ve.meta["last_consume"] = self.step
            ctx.derived.add(s)

    def op_view_take(self, a, op, ctx):
        bent, face = self._bc_face(a)
        arr = getattr(face, a["coef"])
        sl = rslices(a["sl"], arr.shape)
        self.add("w", op["out"], arr[sl], {"b": bent.name, "side": a["side"],
                                           "coef": a["coef"]})
        ctx.created.append(op["out"])

    def op_view_write(self, a, op, ctx):
        went = self.get(a["w"], "w")
        bent = self.get(went.meta["b"], "b")
        # the view must still be a view of the live coefficient array
        face = getattr(bent.obj, went.meta["side"])
        if not shares(went.obj, getattr(face, went.meta["coef"])):
            raise Skip("orphaned view")
        if a.get("wrong_shape"):
            try:
                went.obj[...] = np.full(tuple(s_ + 1 for s_ in went.obj.shape) + (2,), 1.25)
            except Exception as ex:
                ctx.status = "raised:" + type(ex).__name__
                ctx.fault = "bad_shape_assign"
                self.stats["fault-fired:bad_shape_assign"] += 1
        else:
            went.obj[...] = self._val(a["val"], went.obj.shape)
        self.probes["edit:through-retained-view"] += 1
        self._mark_bc_edit(bent, "view", ctx)

    # --------------------------------------------------------- op: value edits
    def _apply_val_edit(self, v, a, shape):
        how = a["how"]
        if how == "assign":
            v.value = self._val(a["val"], shape)
        elif how == "slice":
            sl = rslices(a["sl"], shape)
            v.value[sl] = self._val(a["val"], v.value[sl].shape)
        elif how == "slice2":
            sl = rslices(a["sl"], shape)
            sub = v.value[sl]
            sl2 = rslices(a.get("sl2", []), sub.shape)
            sub[sl2] = self._val(a["val"], sub[sl2].shape)
        elif how == "imul":
            v.value *= float(a["k"])
        elif how == "mask":
            m_ = np.asarray(v.value) > float(a["t"])
            v.value[m_] = float(a["x"])
        elif how == "fancy":
            idx = np.arange(0, shape[0], 2)
            v.value[idx] = self._val(a["val"], np.asarray(v.value)[idx].shape)
        elif how == "update":
            src = self.get(a["src"], "v")
            v.update_value(src.obj)
        elif how == "badshape":
            v.value = np.full(tuple(s + 1 for s in shape) + (2,), 2.5)
        else:
            raise Skip("unknown how")

    def op_val_edit(self, a, op, ctx):
        vent = self.get(a["v"], "v")
        v = vent.obj
        how = a["how"]
        shape = tuple(int(x) for x in v.domain.dims)
        if how == "slice2":
            self.probes["edit:value-view-of-view"] += 1
        before = np.array(A.full_array(v), copy=True).view(np.ndarray)
        try:
            self._apply_val_edit(v, a, shape)
        except Skip:
            raise
        except Exception as ex:
            ctx.status = "raised:" + type(ex).__name__
            ctx.fault = "update_mismatch" if how == "update" else "bad_shape_assign"
            self.stats["fault-fired:" + ctx.fault] += 1
            vent.meta["faulted_at"] = self.step
            vent.meta["fault_kind"] = ctx.fault
            if how != "badshape":
                self._valid_edit_raised(vent, a, shape, ex, ctx)
        else:
            self._check_val_edit_effect(vent, a, shape, before, ctx)
        vent.meta["last_val_edit"] = self.step
        vent.meta["last_val_kind"] = how
        if how == "update":
            vent.meta["ghost_trusted"] = False
            src = self.ents.get(a.get("src"))
            if src is not None and src.meta.get("bc") == vent.meta.get("bc"):
                self.probes["edit:update_value-from-bc-sharer"] += 1
        ctx.written.add(vent.name)
        ctx.i3.append(vent.name)

    def _check_val_edit_effect(self, vent, a, shape, before, ctx):
        """The edit must have the effect the same numpy operation has on a plain
        array with the same storage (dtype, values): assignments are stored,
        update_value takes the source's cell values over."""
        how = a["how"]
        nd = len(shape)
        ref = before
        inner = ref[(slice(1, -1),) * nd]
        try:
            if how == "assign":
                inner[...] = self._val(a["val"], shape)
            elif how == "slice":
                sl = rslices(a["sl"], shape)
                inner[sl] = self._val(a["val"], inner[sl].shape)
            elif how == "slice2":
                sl = rslices(a["sl"], shape)
                sub = inner[sl]
                sl2 = rslices(a.get("sl2", []), sub.shape)
                sub[sl2] = self._val(a["val"], sub[sl2].shape)
            elif how == "imul":
                inner *= float(a["k"])
            elif how == "mask":
                inner[inner > float(a["t"])] = float(a["x"])
            elif how == "fancy":
                idx = np.arange(0, shape[0], 2)
                inner[idx] = self._val(a["val"], inner[idx].shape)
            elif how == "update":
                ref[...] = A.full_array(self.get(a["src"], "v").obj)
            else:
                return
        except BaseException:
            return
        self.oracle_runs["edit-effect"] += 1
        # interior cells only: whether the ghost cells are carried over, left alone
        # or recomputed eagerly by an edit is the implementation's choice (they are
        # derived state until the next operation that recomputes them)
        full_now = A.full_array(vent.obj)
        if full_now.shape != before.shape:
            # the storage changed shape (e.g. update_value from a variable on another
            # mesh re-bound the array instead of raising): certainly not the effect of
            # the numpy operation
            det = {"var": vent.name, "how": how, "shape_before": list(before.shape),
                   "shape_after": list(full_now.shape)}
            self.flag("C09", "I3", "edit-lost/val_edit:%s" % how, det)
            if how == "update":
                self.flag("C12", "I6", "update_value/not-taken-over", det)
            # the object is no longer a variable on its mesh: it leaves the pool
            # (later ops that name it become no-ops)
            self.ents.pop(vent.name, None)
            self.stats["dropped:storage-shape-changed"] += 1
            raise Skip("storage shape changed")
        got_i = full_now[(slice(1, -1),) * nd]
        if not exact(got_i, inner):
            det = {"var": vent.name, "how": how, "maxdiff": maxdiff(got_i, inner)}
            self.flag("C09", "I3", "edit-lost/val_edit:%s" % how, det)
            if how == "update":
                # time loops of the form old.update_value(new) no longer advance
                self.flag("C12", "I6", "update_value/not-taken-over", det)

    def _valid_edit_raised(self, vent, a, shape, ex, ctx):
        """A well-formed value edit raised.  Legitimate when a freshly constructed
        variable with the same storage (values, dtype) rejects it as well (numpy's
        casting rules on integer storage, operands on different meshes); otherwise
        an earlier operation left this variable in a state that no longer accepts
        supported edits (e.g. its storage was left read-only)."""
        try:
            tw = self.pf.CellVariable(vent.obj.domain, np.array(A.full_array(vent.obj), copy=True))
            self._apply_val_edit(tw, a, shape)
        except BaseException:
            return
        det = {"var": vent.name, "exc": repr(ex), "how": a["how"],
               "created_kind": vent.meta.get("created_kind")}
        # who left it like that?  operators / *eval never change their operands (C14);
        # builders and solvers never modify what they are given (C15); and the edit
        # history no longer equals a fresh start (C09)
        self.flag("C14", "I2", "operand-left-unwritable/%s" % a["how"], det)
        self.flag("C15", "I1", "val_edit:%s/raises-on-valid-edit" % a["how"], det)
        self.flag("C09", "I3", "raises/valid-value-edit/%s" % a["how"], det)

    # ------------------------------------------------------------- op: apply
    def op_apply(self, a, op, ctx):
        vent = self.get(a["v"], "v")
        before = vent.meta["val"]
        inner = InnerFault(a["inner"], a.get("nth", 1)) if a.get("inner") else None
        try:
            if inner is not None:
                with inner:
                    vent.obj.apply_BCs()
            else:
                vent.obj.apply_BCs()
        except Exception as ex:
            ctx.status = "raised:" + type(ex).__name__
            if inner is not None and inner.fired:
                ctx.fault = inner.kind
                self.stats["fault-fired:" + inner.kind] += 1
                vent.meta["faulted_at"] = self.step
                vent.meta["fault_kind"] = inner.kind
                st = self.abstract_state(vent)
                if st[3] or st[4]:
                    self.probes["fault-while-target-dirty"] += 1
            else:
                self._note_consumer_fault(vent, ctx)
        else:
            vent.meta["ghost_trusted"] = True
            ctx.i4.append(vent.name)
        vent.meta["last_consume"] = self.step
        ctx.derived.add(vent.name)
        ctx.i3.append(vent.name)
        # interior must be untouched by apply_BCs (visible state is not in the write set)

    def _note_consumer_fault(self, vent, ctx):
        bent = self.ents.get(vent.meta["bc"])
        ment = self.mesh_of(vent)
        if bent is not None and O.radial_periodic(ment.meta["cls"], bent.meta["state"]):
            ctx.fault = "radial_periodic"
            self.stats["fault-fired:radial_periodic"] += 1
            vent.meta["faulted_at"] = self.step
            vent.meta["fault_kind"] = "radial_periodic"

    # ------------------------------------------------------------- op: solve
    def _term_items(self, specs):
        items = []
        for s in specs:
            if "bad" in s:
                bt = self.get(s["t"], "t") if s.get("t") else None
                if s["bad"] in ("tuple_swapped", "tuple3") and (bt is None or bt.meta["kind"] != "MR"):
                    raise Skip("needs a (matrix, vector) pair")
                items.append(("bad", s["bad"], bt, None, None))
                continue
            te = self.get(s["t"], "t")
            if te.meta["kind"] not in ("M", "R", "MR"):
                raise Skip("not a list term")
            if s.get("foreign"):
                items.append(("foreign", te, None, None, None))
                continue
            neg = bool(s.get("neg"))
            scale = s.get("scale")
            if te.meta["kind"] == "MR" and (neg or scale is not None):
                neg, scale = False, None     # plain tuples support neither
            items.append(("t", te, neg, scale, s.get("fmt")))
        return items

    def op_solve(self, a, op, ctx):
        pf = self.pf
        vent = self.get(a["v"], "v")
        if vent.meta.get("noprecalc") and A.cache_of(vent.obj) is None:
            raise Skip("variable was built without the boundary term (BCsTerm_precalc=False)")
        ment = self.mesh_of(vent)
        bent = self.get(vent.meta["bc"], "b")
        items = self._term_items(a["terms"])
        for it in items:
            if it[0] == "t" and it[1].meta.get("mesh") != ment.name:
                raise Skip("term on other mesh")
        mode = a.get("solver")
        # user-side term list
        user_terms = []
        model_items = []
        n_full = int(np.prod(np.asarray(ment.obj.dims) + 2))
        for it in items:
            if it[0] == "bad":
                if it[1] == "tuple_swapped":
                    user_terms.append((it[2].obj[1], it[2].obj[0]))
                elif it[1] == "tuple3":
                    user_terms.append((it[2].obj[0], it[2].obj[1], it[2].obj[1]))
                else:
                    user_terms.append(np.zeros((n_full, 1, 1)))
            elif it[0] == "foreign":
                parts = it[1].obj if isinstance(it[1].obj, tuple) else (it[1].obj,)
                if it[1].meta.get("mesh") == ment.name or \
                        all(np.shape(p_)[0] == n_full for p_ in parts):
                    raise Skip("term is not foreign to this mesh")
                user_terms.append(it[1].obj)
            else:
                user_terms.append(O.apply_mods(it[1].obj, it[2], it[3], it[4]))
                model_items.append((it[1].obj, it[2], it[3]))
                if it[4]:
                    self.probes["solve:term-format-" + str(it[4])] += 1
        has_bad = any(it[0] in ("bad", "foreign") for it in items)
        bad_kind = next((("foreign_term" if it[0] == "foreign" else
                          "unknown_term" if it[1] == "ndim3" else "bad_tuple")
                         for it in items if it[0] in ("bad", "foreign")), None)
        n_reuse = sum(1 for it in items if it[0] == "t" and it[1].meta.get("uses", 0) >= 2)
        for it in items:
            if it[0] == "t":
                it[1].meta["uses"] = it[1].meta.get("uses", 0) + 1
                if it[1].meta["uses"] >= 3:
                    self.probes["term-reused-3+-solves"] += 1
        st = self.abstract_state(vent)
        if vent.meta.get("origin") == "explicit-result":
            self.probes["explicit-result-fed-to-implicit"] += 1
        if st[0] >= 2 and st[3]:
            self.probes["solve:shared-bc-dirty"] += 1
        # ---- expectation from a fresh twin (C09) and the harness' own assembly (C04)
        expect = None
        twin, texc = self.twin_of(vent)
        M = RHS = x_exp = None
        degenerate = not self.bc_ok(vent)
        if twin is not None and not has_bad:
            try:
                Mbc, Rbc = pf.boundaryConditionsTerm(twin.BCs)
                M, RHS = O.assemble(Mbc, Rbc, model_items)
                x_exp = _scipy_spsolve(M, RHS)
            except Exception:
                M = None
        via_default = bool(mode) and mode.startswith("def_")
        if via_default:
            # the other seam: the module-level default solver of pdesolver.py is
            # replaced for the duration of this one call (recording pass-through,
            # or an allocation failure inside the sparse factorisation)
            mode = {"def_record": "ext", "def_raise": "ext_raise"}[mode]
            self.probes["seam:default-solver-patched"] += 1
        fake = FakeSolver(mode) if mode else None
        inner = InnerFault(a["inner"], a.get("nth", 1)) if a.get("inner") else None
        if a.get("container") == "tuple":
            user_terms = tuple(user_terms)
            self.probes["solve:terms-in-a-tuple"] += 1
        terms_before = list(user_terms)
        try:
            if inner is not None:
                with inner:
                    ret = pf.solvePDE(vent.obj, user_terms)
            elif via_default:
                orig_sp = self.ps.spsolve
                self.ps.spsolve = fake
                try:
                    ret = pf.solvePDE(vent.obj, user_terms)
                finally:
                    self.ps.spsolve = orig_sp
            elif fake is not None:
                ret = pf.solvePDE(vent.obj, user_terms, externalsolver=fake)
            else:
                ret = pf.solvePDE(vent.obj, user_terms)
            got = ("ok", ret)
        except Exception as ex:
            got = ("raise", type(ex).__name__)
        if len(user_terms) != len(terms_before) or \
                any(x is not y for x, y in zip(user_terms, terms_before)):
            # the caller's term list is reused in the next step of a time loop
            self.flag("C15", "I1", "solve/term-list/operand",
                      {"var": vent.name, "len_before": len(terms_before), "len_after": len(user_terms)})
        if via_default and not fake.calls:
            # the library does not reach its solver through the patched module
            # attribute (any more): not demanded by any property, the call then
            # simply ran unpatched
            self.stats["seam:default-patch-not-effective"] += 1
            fake, mode = None, None
        # ---- classify
        fault = None
        if mode == "ext_raise" and fake.calls:
            fault = "solver_raise"
        elif mode == "ext_scribble_raise" and fake.calls:
            fault = "solver_scribble"
        elif mode == "ext_badshape" and fake.calls:
            fault = "solver_badshape"
        elif has_bad:
            fault = bad_kind
        if inner is not None and inner.fired:
            fault = inner.kind
        if got[0] == "raise":
            ctx.status = "raised:" + got[1]
            if fault is None:
                self._note_consumer_fault(vent, ctx)
                fault = ctx.fault
            if fault:
                ctx.fault = fault
                if fault != "radial_periodic":
                    self.stats["fault-fired:" + fault] += 1
                if st[3] or st[4]:
                    self.probes["fault-while-target-dirty"] += 1
                vent.meta["faulted_at"] = self.step
                vent.meta["fault_kind"] = fault
            elif twin is not None and not degenerate:
                # a fresh variable would have been accepted by the same call
                tw_ok = True
                try:
                    pf.solvePDE(twin, user_terms)
                except Exception:
                    tw_ok = False
                if tw_ok:
                    det = {"var": vent.name, "exc": got[1], "in": "history-solve"}
                    self.flag("C09", "I3", "raises/origin=%s" % vent.meta.get("origin"), det)
                    # the same call on a fresh variable with the same visible state
                    # succeeds: the step was not taken / the system was not solved
                    self.flag("C04", "I5", "solve-raises/origin=%s" % vent.meta.get("origin"), det)
                    if any(it[0] == "t" and "trans_model" in it[1].meta for it in items):
                        self.flag("C12", "I6", "transient/step-raises/origin=%s"
                                  % vent.meta.get("origin"), det)
        else:
            if twin is None and not degenerate:
                self.flag("C09", "I3", "accepts-invalid/history-solve",
                          {"var": vent.name, "want": texc})
            vent.meta["ghost_trusted"] = True
            ctx.i4.append(vent.name)
            finite = M is not None and x_exp is not None and np.all(np.isfinite(x_exp))
            if ("I4" in self.inv or self.prop == "C04") and finite and not degenerate \
                    and mode not in ("ext_mark", "ext_nan"):
                self.check_interior_ghost_consistency(vent, M, RHS, x_exp, ctx)
            if "I6" in self.inv and finite and not degenerate \
                    and mode not in ("ext_mark", "ext_nan"):
                self.check_step_equation(vent, twin, items, x_exp, ctx)
            if "I5" in self.inv:
                self.check_solve_contract(vent, ret, M, RHS, x_exp, fake, mode, degenerate, ctx)
            elif self.prop == "C15" and M is not None and not degenerate:
                # determinism: equal inputs (visible state of the variable, values of
                # the terms) give the solution of exactly that system, whatever was
                # solved with the same objects before
                if finite and mode not in ("ext_mark", "ext_nan") and not has_bad \
                        and np.all(np.isfinite(M.data)) and np.all(np.isfinite(RHS)):
                    nd_ = len(ment.meta["faces"])
                    shp_ = tuple(int(d) + 2 for d in ment.obj.dims)
                    xe_ = np.reshape(x_exp, shp_)
                    xc_ = np.array(xe_, copy=True)
                    xc_[(slice(1, -1),) * nd_] = A.interior(vent.obj)
                    r1 = O.backward_residual(M, RHS, xc_)
                    r0 = O.backward_residual(M, RHS, xe_)
                    self.oracle_runs["I7-solve-determinism"] += 1
                    if np.isfinite(r0) and (not np.isfinite(r1) or r1 > max(1e-9, 1e3 * r0)):
                        self.flag("C15", "I7", "solvePDE/result-depends-on-call-history",
                                  {"var": vent.name, "residual": r1, "reference_residual": r0})
                # frame condition of the expert-level entry point (C15)
                M = O.with_explicit_zero(M)
                Mk, Rk = A.snap_csr(M), A.akey(RHS)
                try:
                    pf.solveMatrixPDE(ment.obj, M, RHS)
                except Exception:
                    pass
                if (A.snap_csr(M), A.akey(RHS)) != (Mk, Rk):
                    self.flag("C15", "I1", "solveMatrixPDE/t/operand", {"var": vent.name})
                self.oracle_runs["I1-matrixpde"] += 1
        if mode in ("ext", "ext_mark", "ext_scribble", "ext_nan") and fake.calls:
            self.stats["seam:external-solver-used"] += 1
            if mode == "ext_scribble":
                self.stats["fault-fired:solver_scribble"] += 1
            if mode == "ext_nan":
                self.stats["fault-fired:solver_nan"] += 1
        if M is not None and x_exp is not None and not np.all(np.isfinite(x_exp)):
            self.stats["fault-fired:singular"] += 1
            ctx.fault = ctx.fault or "singular"
        vent.meta["last_consume"] = self.step
        if got[0] == "raise" and inner is not None and inner.fired:
            # the allocation failed inside apply_BCs(): at the exit of solvePDE the
            # solution is already stored; the stored values are re-read
            ctx.written.add(vent.name)
            vent.meta["ghost_trusted"] = False
        elif got[0] == "raise" and twin is not None and not degenerate:
            # a failed call may refresh the target's derived state (ghosts, cached
            # boundary term) but must not leave anything else in it, and must not
            # touch the stored solution: the frame check judges the target too
            pass
        elif got[0] == "raise":
            ctx.derived.add(vent.name)
        else:
            ctx.written.add(vent.name)
        ctx.i3.append(vent.name)

    def check_interior_ghost_consistency(self, vent, M, RHS, x_exp, ctx):
        """I4 (C03): the solved interior and the *reported* boundary values are
        mutually consistent: the interior-cell equations hold with the ghost
        values the variable now reports."""
        ment = self.mesh_of(vent)
        cls, faces = self.mesh_model(ment)
        st = self.ents[vent.meta["bc"]].meta["state"]
        for ax in range(len(faces)):
            if O.axis_periodic(st, ax):
                f = faces[ax]
                if abs((f[1] - f[0]) - (f[-1] - f[-2])) > 1e-12 * abs(f[-1] - f[0]):
                    return      # non-uniform periodic axis: not judged (DESIGN I4)
        full = A.full_array(vent.obj).ravel()
        if not (np.all(np.isfinite(full)) and np.all(np.isfinite(M.data))
                and np.all(np.isfinite(RHS))):
            return      # e.g. a 1/0 coefficient field: nothing meaningful to compare
        inner, _ = O.interior_index(ment.obj.dims)
        r = np.abs(M @ full - RHS)[inner]
        d = (abs(M) @ np.abs(full) + np.abs(RHS))[inner]
        q = r / np.where(d > 0, d, 1.0)
        res0 = O.backward_residual(M, RHS, x_exp)
        self.oracle_runs["I4-consistency"] += 1
        if q.size and np.all(np.isfinite(q)) and np.isfinite(res0) \
                and q.max() > max(1e-9, 1e3 * res0):
            nd = len(faces)
            flags = "".join("P" if O.axis_periodic(st, ax) else "-" for ax in range(nd))
            # C03: solved interior and reported boundary values are mutually consistent;
            # C04: interior equations together with the variable's boundary equations
            self.flag(("C03", "C04"), "I4" if self.prop != "C04" else "I5",
                      "%s/solve/interior-vs-reported-ghosts/%s" % (cls, flags),
                      {"var": vent.name, "residual": float(q.max())})

    def check_step_equation(self, vent, twin, items, x_exp_unused, ctx):
        """I6 (C12): alpha*(new-old)/dt + (spatial terms) new = sources, with the
        transient part re-derived by the harness from the inputs the user gave
        to transientTerm."""
        tr = [it for it in items if it[0] == "t" and "trans_model" in it[1].meta]
        if not tr or twin is None:
            return
        pf = self.pf
        ment = self.mesh_of(vent)
        nd = len(ment.meta["faces"])
        shp = tuple(int(d) + 2 for d in ment.obj.dims)
        model_items = []
        for it in items:
            if it[0] != "t":
                return
            if "trans_model" in it[1].meta:
                diag, rhs = it[1].meta["trans_model"]
                # the user may have scribbled on the term object afterwards: then it
                # is no longer the transient term and this oracle does not apply
                if it[1].snap != it[1].meta.get("orig"):
                    return
                model_items.append(((sp.diags_array(diag, format="csr"), rhs), False, None))
            else:
                model_items.append((it[1].obj, it[2], it[3]))
        try:
            Mbc, Rbc = pf.boundaryConditionsTerm(twin.BCs)
            M, RHS = O.assemble(Mbc, Rbc, model_items)
            xe = _scipy_spsolve(M, RHS)
        except Exception:
            return
        if not (np.all(np.isfinite(xe)) and np.all(np.isfinite(M.data))
                and np.all(np.isfinite(RHS))):
            return
        xe = np.reshape(xe, shp)
        x_chk = np.array(xe, copy=True)
        x_chk[(slice(1, -1),) * nd] = A.interior(vent.obj)
        res = O.backward_residual(M, RHS, x_chk)
        res0 = O.backward_residual(M, RHS, xe)
        self.oracle_runs["I6-step-equation"] += 1
        if np.isfinite(res) and np.isfinite(res0) and res > max(1e-9, 1e3 * res0):
            self.flag("C12", "I6", "transient/step-equation",
                      {"var": vent.name, "residual": res, "reference_residual": res0})

    def check_solve_contract(self, vent, ret, M, RHS, x_exp, fake, mode, degenerate, ctx):
        """I5 (C04): identity, assembly, solveMatrixPDE equivalence, the seam."""
        pf = self.pf
        self.oracle_runs["I5"] += 1
        if ret is not vent.obj:
            self.flag("C04", "I5", "identity", {"var": vent.name})
            return
        if M is None or degenerate:
            self.stats["i5:skipped"] += 1
            return
        ment = self.mesh_of(vent)
        nd = len(ment.meta["faces"])
        shp = tuple(int(d) + 2 for d in ment.obj.dims)
        got_int = A.interior(vent.obj)
        if fake is not None and fake.calls:
            Mr, Rr = fake.calls[0]
            if not (O.mat_equal(Mr, M) and same(Rr, RHS, 1e-12)):
                self.flag("C04", "I5", "seam-system", {"var": vent.name})
                return
            want = np.reshape(fake.ret, shp)[(slice(1, -1),) * nd]
            if not exact(got_int, want):
                self.flag("C04", "I5", "seam-result", {"var": vent.name})
                return
            if len(fake.calls) != 1:
                self.flag("C04", "I5", "seam-calls", {"calls": len(fake.calls)})
                return
            if mode in ("ext_mark", "ext_nan"):
                return
        elif fake is not None and not fake.calls:
            self.flag("C04", "I5", "seam-ignored", {"var": vent.name})
            return
        if not np.all(np.isfinite(x_exp)):
            self.stats["i5:singular-skipped"] += 1
            return
        xe = np.reshape(x_exp, shp)
        want_int = xe[(slice(1, -1),) * nd]
        x_chk = np.array(xe, copy=True)
        x_chk[(slice(1, -1),) * nd] = got_int
        res = O.backward_residual(M, RHS, x_chk)
        res0 = O.backward_residual(M, RHS, xe)
        if not (np.isfinite(res0) and np.all(np.isfinite(M.data)) and np.all(np.isfinite(RHS))):
            self.stats["i5:nonfinite-system-skipped"] += 1
            return
        if not np.isfinite(res) or res > max(1e-9, 1e3 * res0):
            self.flag("C04", "I5", "assembly", {"var": vent.name, "residual": res,
                                                "reference_residual": res0,
                                                "maxdiff": maxdiff(got_int, want_int)})
            return
        # hand-assembled system through the expert-level entry point
        M = O.with_explicit_zero(M)
        Mk, Rk = A.snap_csr(M), A.akey(RHS)
        try:
            w = pf.solveMatrixPDE(ment.obj, M, RHS)
        except Exception as ex:
            self.flag("C04", "I5", "matrixpde-raises", {"exc": repr(ex)})
            return
        if (A.snap_csr(M), A.akey(RHS)) != (Mk, Rk):
            self.flag("C15", "I1", "solveMatrixPDE/t/operand", {"var": vent.name})
        if fake is not None:
            fk = FakeSolver("ext_mark")
            try:
                w2 = pf.solveMatrixPDE(ment.obj, M, RHS, externalsolver=fk)
            except Exception as ex:
                self.flag("C04", "I5", "matrixpde-seam-raises", {"exc": repr(ex)})
                return
            if len(fk.calls) != 1 or not (O.mat_equal(fk.calls[0][0], M)
                                          and same(fk.calls[0][1], RHS, 1e-12)):
                self.flag("C04", "I5", "matrixpde-seam-system", {"calls": len(fk.calls)})
                return
            if not exact(A.interior(w2), np.reshape(fk.ret, shp)[(slice(1, -1),) * nd]):
                self.flag("C04", "I5", "matrixpde-seam-result", {})
                return
        wi = A.interior(w)
        x2 = np.array(xe, copy=True)
        x2[(slice(1, -1),) * nd] = wi
        if O.backward_residual(M, RHS, x2) > max(1e-9, 1e3 * res0):
            # a (numerically) singular system - steady pure-Neumann problem - has no
            # unique solution: two correct direct solves of the same matrix stored
            # with another sparsity pattern may return different vectors
            try:
                cond = np.linalg.cond(M.toarray())
            except Exception:
                cond = np.inf
            if not np.isfinite(cond) or cond > 1e10:
                self.stats["i5:matrixpde-singular-skipped"] += 1
                return
            self.flag("C04", "I5", "matrixpde", {"var": vent.name, "cond": float(cond)})
            return

    # --------------------------------------------------------- op: matrixpde
    def op_matrixpde(self, a, op, ctx):
        """The expert-level flow: the user assembles boundary term + terms himself and
        calls solveMatrixPDE; the *returned* variable (default BCs, ghost cells as
        the linear system gave them) then lives on in the pool like any other."""
        pf = self.pf
        src = self.get(a["v"], "v")
        ment = self.mesh_of(src)
        if self.bcs_invalid(src) or not self.bc_ok(src):
            raise Skip("BCs invalid or degenerate")
        items = self._term_items(a["terms"])
        if any(it[0] != "t" or it[1].meta.get("mesh") != ment.name for it in items):
            raise Skip("terms")
        for it in items:
            ctx.relation[it[1].name] = "operand"
        ctx.relation[src.name] = "operand"
        try:
            Mbc, Rbc = pf.boundaryConditionsTerm(src.obj.BCs)
            M, RHS = O.assemble(Mbc, Rbc, [(it[1].obj, it[2], it[3]) for it in items])
        except Exception:
            raise Skip("assembly failed")
        if not (np.all(np.isfinite(M.data)) and np.all(np.isfinite(RHS))):
            raise Skip("non-finite system")
        M = O.with_explicit_zero(M)
        Mk, Rk = A.snap_csr(M), A.akey(RHS)
        try:
            res = pf.solveMatrixPDE(ment.obj, M, RHS)
        except Exception as ex:
            ctx.status = "raised:" + type(ex).__name__
            return
        if (A.snap_csr(M), A.akey(RHS)) != (Mk, Rk):
            self.flag("C15", "I1", "solveMatrixPDE/t/operand", {"var": src.name})
        if not np.all(np.isfinite(A.full_array(res))):
            ctx.status = "singular"
            return
        e = self.register_var(op["out"], res, ment.name, "matrixpde", ctx, parents=(src.name,),
                              bc_out=op.get("outb"), created_kind="matrixpde", ghost_trusted=False)
        self.probes["var:returned-by-solveMatrixPDE"] += 1
        ctx.i3.append(e.name)

    # ---------------------------------------------------------- op: explicit
    def op_explicit(self, a, op, ctx):
        pf = self.pf
        vent = self.get(a["v"], "v")
        ment = self.mesh_of(vent)
        n = int(np.prod(np.asarray(ment.obj.dims) + 2))
        if "t" in a["rhs"]:
            te = self.get(a["rhs"]["t"], "t")
            if te.meta["kind"] != "R" or te.meta.get("mesh") != ment.name:
                raise Skip("rhs not a vector on this mesh")
            rhs = te.obj
        elif a["rhs"].get("badsize"):
            rhs = np.linspace(0.0, 1.0, n + 3)
        else:
            rhs = materialize(a["rhs"], (n,))
        dt = float(a["dt"])
        old_int = vent.meta["val"]
        rhs_before = np.array(rhs, copy=True)
        twin, texc = self.twin_of(vent)
        degenerate = not self.bc_ok(vent)
        try:
            res = pf.solveExplicitPDE(vent.obj, dt, rhs)
            got = "ok"
        except Exception as ex:
            got = type(ex).__name__
        vent.meta["last_consume"] = self.step
        ctx.derived.add(vent.name)
        ctx.i3.append(vent.name)
        if not exact(rhs, rhs_before):
            # C15: solveExplicitPDE modifies nothing it is given; C12: in a multi-step
            # loop with a time-independent RHS the next step is no longer old + dt*RHS
            self.flag(("C15", "C12"), "I1" if self.prop != "C12" else "I6",
                      "explicit/rhs/operand" if self.prop != "C12" else "explicit/rhs-modified",
                      {"var": vent.name})
        if got != "ok":
            ctx.status = "raised:" + got
            self._note_consumer_fault(vent, ctx)
            if ctx.fault is None and a["rhs"].get("badsize"):
                ctx.fault = "explicit_badrhs"
                self.stats["fault-fired:explicit_badrhs"] += 1
                vent.meta["faulted_at"] = self.step
                vent.meta["fault_kind"] = ctx.fault
            if ctx.fault is None and twin is not None and not degenerate:
                ok = True
                try:
                    pf.solveExplicitPDE(twin, dt, rhs)
                except Exception:
                    ok = False
                if ok:
                    det = {"var": vent.name, "exc": got, "in": "history-explicit"}
                    self.flag("C09", "I3", "raises/origin=%s" % vent.meta.get("origin"), det)
                    self.flag("C12", "I6", "explicit/step-raises/origin=%s"
                              % vent.meta.get("origin"), det)
            return
        if res is vent.obj:
            self.flag("C12", "I6", "explicit/returns-input", {"var": vent.name})
        e = self.register_var(op["out"], res, ment.name, "explicit-result", ctx,
                              parents=(vent.name,), bc_out=op.get("outb"),
                              created_kind="explicit")
        ctx.relation[vent.name] = "explicit-input"
        if e.meta["bc"] == vent.meta["bc"]:
            self.probes["explicit-result-shares-bc-object"] += 1
        else:
            # "boundary values re-imposed": in a chained loop c = solveExplicitPDE(c, ..)
            # the user keeps editing the BoundaryConditions object the first variable
            # was built with (a time-dependent boundary value); a result that carries a
            # private snapshot of the BCs no longer follows it (DESIGN 13.2)
            self.flag("C12", "I6", "explicit/result-does-not-follow-input-bcs",
                      {"var": vent.name, "result": e.name})
        ctx.i3.append(e.name)
        ctx.i4.append(e.name)
        if "I6" in self.inv:
            self.oracle_runs["I6"] += 1
            nd = len(ment.meta["faces"])
            shp = tuple(int(d) + 2 for d in ment.obj.dims)
            want = old_int + dt * np.reshape(rhs_before, shp)[(slice(1, -1),) * nd]
            if not same(A.interior(res), want, 1e-12):
                self.flag("C12", "I6", "explicit/update-formula",
                          {"var": vent.name, "maxdiff": maxdiff(A.interior(res), want)})
            elif not exact(A.interior(vent.obj), old_int):
                self.flag("C12", "I6", "explicit/input-modified", {"var": vent.name})
            elif twin is not None and not degenerate:
                # boundary values re-imposed: the configured relation holds face by face
                # (formula written independently of boundary.py) ...
                bent = self.get(e.meta["bc"], "b")
                cls_, faces_ = self.mesh_model(ment)
                if not O.radial_periodic(cls_, bent.meta["state"]) \
                        and np.all(np.isfinite(A.interior(res))):
                    badrel = O.bc_relation_failures(cls_, faces_, bent.meta["state"],
                                                    A.full_array(res))
                    if badrel:
                        self.flag("C12", "I6", "explicit/bc-relation/axis%d/%s" % (badrel[0][0], badrel[0][1]),
                                  {"var": e.name, "side": badrel[0][2], "residual": badrel[0][3]})
                # ... and the ghost layer is the one a fresh variable would hold
                try:
                    tw = O.build_twin(pf, ment.obj, bent.meta["state"], A.interior(res))
                    if not same(A.full_array(res), A.full_array(tw)):
                        self.flag("C12", "I6", "explicit/bc-not-reimposed", {"var": e.name})
                except Exception:
                    pass

    # ----------------------------------------------------------- op: algebra
    def _operand(self, spec, shape_like=None):
        """-> (python value for the real call, numpy value for the model, ent|None)"""
        if "v" in spec:
            e = self.get(spec["v"], ("v", "f"))
            return e.obj, e, e
        if "s" in spec:
            return float(spec["s"]), float(spec["s"]), None
        if "arr" in spec:
            arr = materialize(spec["arr"], shape_like)
            return arr, arr, None
        raise Skip("bad operand")

    def op_binop(self, a, op, ctx):
        name = a["op"]
        f = BINOPS[name]
        npf = NP_BINOPS[name]
        lspec, rspec = a["l"], a["r"]
        # find the variable operand that fixes kind / mesh / shapes
        first = self.get(lspec["v"] if "v" in lspec else rspec.get("v"), ("v", "f"))
        kind = first.kind
        ment = self.mesh_of(first)
        if kind == "v":
            shp = tuple(int(x) for x in ment.obj.dims)
        else:
            shp = (1,)
        lo, lm, le = self._operand(lspec, shp)
        ro, rm, re_ = self._operand(rspec, shp)
        for x in (le, re_):
            if x is not None and (x.kind != kind or
                                  (x.meta["mesh"] != ment.name and not a.get("fault"))):
                raise Skip("operand mismatch")
        if le is None and "arr" in lspec:
            raise Skip("ndarray on the left is numpy's dispatch")
        if le is None and name in ("and", "or"):
            raise Skip("no reflected logical operators")
        def model_eval_cell():
            return npf(le.meta["val"] if le is not None else lm,
                       re_.meta["val"] if re_ is not None else rm)

        def model_comp(i):
            def get(ent, mval):
                if ent is None:
                    return mval
                return np.frombuffer(ent.snap[i][2], dtype=ent.snap[i][0]).reshape(ent.snap[i][1])
            return npf(get(le, lm), get(re_, rm))
        try:
            res = f(lo, ro)
        except Exception as ex:
            ctx.status = "raised:" + type(ex).__name__
            if a.get("fault"):
                # operands on different meshes: rejecting the call is the expected
                # outcome (numpy broadcasting error or the constructor's size check)
                ctx.fault = "algebra_mismatch"
                self.stats["fault-fired:algebra_mismatch"] += 1
                return
            src = le if le is not None else re_
            if kind == "v" and self.bcs_invalid(src):
                return          # documented constructor error: BCs currently invalid
            if self._numpy_also_raises(model_eval_cell if kind == "v"
                                       else (lambda: [model_comp(i) for i in range(3)])):
                return
            self.flag("C14", "I2", "%s/%s/raises" % (name, self._kinds(lspec, rspec)),
                      {"exc": repr(ex), "op": op})
            return
        if a.get("fault") and le is not None and re_ is not None \
                and le.meta["mesh"] != re_.meta["mesh"]:
            # operands on different meshes were accepted (their shapes happen to
            # broadcast, e.g. 1 cell against 3 cells = 1 cell + 2 ghost cells): the
            # outcome of an unsupported call is unspecified; nothing is judged and
            # the result does not enter the pool (operands are still frame-checked)
            ctx.status = "ok-unexpected"
            self.stats["fault-not-fired:algebra_mismatch-accepted"] += 1
            return
        parents = tuple(x.name for x in (le, re_) if x is not None)
        for x in (le, re_):
            if x is not None:
                ctx.relation[x.name] = "operand"
        self.oracle_runs["I2"] += 1
        self.probes["algebra:%s:%s:%s" % (kind, name, self._kinds(lspec, rspec))] += 1
        if kind == "v":
            self._finish_cell_result(op, ctx, res, ment, parents, "binop",
                                     model_eval_cell,
                                     le if le is not None else re_,
                                     "%s/%s" % (name, self._kinds(lspec, rspec)),
                                     exact_cmp=name in EXACT_OPS)
        else:
            self._finish_face_result(op, ctx, res, ment, parents, "binop", model_comp,
                                     "%s/%s" % (name, self._kinds(lspec, rspec)))

    @staticmethod
    def _kinds(l, r):
        def k(s):
            return "var" if "v" in s else ("scalar" if "s" in s else "array")
        return k(l) + "-" + k(r)

    def _finish_cell_result(self, op, ctx, res, ment, parents, ckind, expect_fn, bc_src,
                            label, exact_cmp=True):
        pf = self.pf
        if not isinstance(res, pf.CellVariable):
            self.flag("C14", "I2", label + "/type", {"got": type(res).__name__})
            ctx.status = "badtype"
            return
        if any(res is self.ents[p].obj for p in parents):
            self.flag("C14", "I2", label + "/identity", {"op": op})
            ctx.status = "alias"
            return
        e = self.register_var(op["out"], res, ment.name, "operator" if ckind != "copy" else "copy",
                              ctx, parents=parents, bc_out=op.get("outb"),
                              created_kind=ckind, expect_new_bc=True,
                              ghost_trusted=(ckind != "copy"))
        want = np.asarray(expect_fn(), dtype=float)
        got = A.interior(res)
        okv = exact(got, want) if exact_cmp else same(got, want, 1e-12)
        if not okv:
            self.flag("C14", "I2", label + "/value",
                      {"maxdiff": maxdiff(got, want), "op": op})
        # BCs: value copy of the left-most variable operand's
        src_b = self.get(bc_src.meta["bc"], "b")
        if A.snap_bc(res.BCs) != src_b.snap:
            self.flag("C14", "I2", label + "/bc", {"op": op, "src": bc_src.name})
        # boundary values consistent with them
        if ckind != "copy":
            cls, faces = self.mesh_model(ment)
            st = self.ents[e.meta["bc"]].meta["state"]
            if not O.radial_periodic(cls, st):
                try:
                    tw = O.build_twin(pf, ment.obj, st, got)
                    if not same(A.full_array(res), A.full_array(tw)):
                        self.flag("C14", "I2", label + "/ghost", {"op": op})
                except Exception:
                    pass
            ctx.i4.append(e.name)
        else:
            # copy(): equal in everything observable - the ghost layer too, which
            # plotprofile(), the means and gradientTerm() of the copy read (a copy
            # that recomputes it differs from its original whenever the original's
            # ghost cells are not what its BCs dictate: solveMatrixPDE results,
            # ghost-including constructor, a pending BC edit)
            orig = self.ents[parents[0]]
            if not exact(A.full_array(res), A.full_array(orig.obj)):
                self.flag(("C14", "C09"), "I2", label + "/ghost", {"op": op})
            e.meta["ghost_trusted"] = orig.meta.get("ghost_trusted", True)
            e.meta["last_consume"] = orig.meta.get("last_consume", -1)
            e.meta["last_val_edit"] = orig.meta.get("last_val_edit", -1)
            # dirtiness relative to the BC entry is inherited with the deep copy
            ob = self.ents.get(orig.meta["bc"])
            nb = self.ents.get(e.meta["bc"])
            if ob is not None and nb is not None and nb is not ob:
                nb.meta["last_edit"] = ob.meta.get("last_edit", -1)
                nb.meta["last_edit_kind"] = ob.meta.get("last_edit_kind")
        ctx.i3.append(e.name)

    def _finish_face_result(self, op, ctx, res, ment, parents, ckind, comp_fn, label):
        pf = self.pf
        if not isinstance(res, pf.FaceVariable):
            self.flag("C14", "I2", label + "/type", {"got": type(res).__name__})
            ctx.status = "badtype"
            return
        if any(res is self.ents[p].obj for p in parents):
            self.flag("C14", "I2", label + "/identity", {"op": op})
            ctx.status = "alias"
            return
        self.add("f", op["out"], res, {"mesh": ment.name, "parents": tuple(parents),
                                       "created_kind": ckind})
        ctx.created.append(op["out"])
        got = (res._xvalue, res._yvalue, res._zvalue)
        for i in range(3):
            want = np.asarray(comp_fn(i), dtype=float)
            if not exact(np.asarray(got[i], dtype=float), want):
                if not same(got[i], want, 1e-12) or ckind == "binop" and op["a"]["op"] in EXACT_OPS:
                    self.flag("C14", "I2", label + "/value",
                              {"component": i, "op": op})
                    break

    def op_unop(self, a, op, ctx):
        e = self.get(a["x"], ("v", "f"))
        ment = self.mesh_of(e)
        name = a["op"]
        fn = {"neg": lambda x: -x, "abs": lambda x: abs(x)}[name]
        npf = {"neg": lambda x: -x, "abs": np.abs}[name]
        def ucomp(i):
            return npf(np.frombuffer(e.snap[i][2], dtype=e.snap[i][0]).reshape(e.snap[i][1]))
        try:
            res = fn(e.obj)
        except Exception as ex:
            ctx.status = "raised:" + type(ex).__name__
            if self.bcs_invalid(e):
                return
            if self._numpy_also_raises((lambda: npf(e.meta["val"])) if e.kind == "v"
                                       else (lambda: [ucomp(i) for i in range(3)])):
                return
            self.flag("C14", "I2", "%s/raises" % name, {"exc": repr(ex)})
            return
        ctx.relation[e.name] = "operand"
        self.oracle_runs["I2"] += 1
        self.probes["algebra:%s:%s" % (e.kind, name)] += 1
        if e.kind == "v":
            self._finish_cell_result(op, ctx, res, ment, (e.name,), "unop",
                                     lambda: npf(e.meta["val"]), e, name + "/var")
        else:
            self._finish_face_result(op, ctx, res, ment, (e.name,), "unop", ucomp, name + "/var")

    def op_eval(self, a, op, ctx):
        pf = self.pf
        nargs, f = PURE_FUNCS[a["f"]]
        ents = [self.get(n, ("v", "f")) for n in a["args"]]
        if len(ents) != nargs:
            raise Skip("arity")
        kind = ents[0].kind
        ment = self.mesh_of(ents[0])
        if any(x.kind != kind or x.meta["mesh"] != ment.name for x in ents):
            raise Skip("operand mismatch")
        fn = a["fn"]
        if (fn == "faceeval") != (kind == "f"):
            raise Skip("kind mismatch")
        def ecomp(i):
            return f(*[np.frombuffer(x.snap[i][2], dtype=x.snap[i][0]).reshape(x.snap[i][1])
                       for x in ents])
        try:
            res = getattr(pf, fn)(f, *[x.obj for x in ents])
        except Exception as ex:
            ctx.status = "raised:" + type(ex).__name__
            if a["f"] == "boom":
                ctx.fault = "eval_raises"
                self.stats["fault-fired:eval_raises"] += 1
            if self.bcs_invalid(ents[0]):
                return
            if self._numpy_also_raises((lambda: f(*[x.meta["val"] for x in ents])) if kind == "v"
                                       else (lambda: [ecomp(i) for i in range(3)])):
                return
            self.flag("C14", "I2", "%s/raises" % fn, {"exc": repr(ex)})
            return
        for x in ents:
            ctx.relation[x.name] = "operand"
        parents = tuple(x.name for x in ents)
        self.oracle_runs["I2"] += 1
        self.probes["algebra:%s:%d" % (fn, nargs)] += 1
        label = "%s/%d-args" % (fn, nargs)
        if kind == "v":
            self._finish_cell_result(op, ctx, res, ment, parents, "eval",
                                     lambda: f(*[x.meta["val"] for x in ents]),
                                     ents[0], label)
        else:
            self._finish_face_result(op, ctx, res, ment, parents, "eval", ecomp, label)

    def op_copy(self, a, op, ctx):
        e = self.get(a["v"], "v")
        ment = self.mesh_of(e)
        try:
            res = e.obj.copy()
        except Exception as ex:
            ctx.status = "raised:" + type(ex).__name__
            # copy() of a variable whose BCs are currently invalid raises the
            # documented error from the constructor: follow the implementation
            return
        ctx.relation[e.name] = "operand"
        self.oracle_runs["I2"] += 1
        self._finish_cell_result(op, ctx, res, ment, (e.name,), "copy",
                                 lambda: e.meta["val"], e, "copy/var")

    # ---------------------------------------------------------- op: builders
    def _call_builder(self, fn, a):
        """Resolve arguments and call a public builder.
        Returns (result, kind, mesh name, input signature, parents)."""
        pf = self.pf
        spec, kind = BUILDERS[fn]
        args = []
        sig = []
        parents = []
        mesh = None
        names = a["args"]
        if len(names) != len(spec):
            raise Skip("arity")
        for s, n in zip(spec, names):
            if s in ("v", "f", "b", "m"):
                e = self.get(n, s)
                args.append(e.obj)
                parents.append(e.name)
                sig.append((e.name, e.snap, e.der if s == "v" else None))
                if s == "v":
                    # some builders construct temporaries from the variable (a/dt,
                    # a*phi): the outcome then also depends on its BCs being valid
                    be = self.ents.get(e.meta.get("bc"))
                    sig.append((e.name + ".BCs", None if be is None else be.snap, None))
                mn = e.name if s == "m" else e.meta["mesh"]
                if mesh is None:
                    mesh = mn
                elif mesh != mn:
                    raise Skip("mixed meshes")
                if s in ("v", "f", "b"):
                    me = self.get(mn, "m")
                    if (n, me.snap) not in sig:
                        sig.append((mn, me.snap, None))
            elif s == "FL":
                args.append(pf.fluxLimiter(n))
                sig.append(("FL", n, None))
            elif s == "dt":
                args.append(float(n))
                sig.append(("dt", float(n), None))
            elif s == "alpha":
                if isinstance(n, str):
                    e = self.get(n, "v")
                    if e.meta["mesh"] != mesh:
                        raise Skip("mixed meshes")
                    args.append(e.obj)
                    parents.append(e.name)
                    sig.append((e.name, e.snap, e.der))
                    be = self.ents.get(e.meta.get("bc"))
                    sig.append((e.name + ".BCs", None if be is None else be.snap, None))
                else:
                    args.append(float(n))
                    sig.append(("alpha", float(n), None))
        cls = self.get(mesh, "m").meta["cls"]
        if fn in ("convectionUpwindTerm2",) and cls not in UPWIND2_CLASSES:
            raise Skip("second argument not forwarded on this class")
        real = {"convectionUpwindTerm2": "convectionUpwindTerm",
                "convectionTVDupwindRHSTerm2": "convectionTVDupwindRHSTerm"}.get(fn, fn)
        if fn == "plotprofile":
            call = lambda: args[0].plotprofile()
        elif fn == "domainIntegral":
            call = lambda: args[0].domainIntegral()
        else:
            call = lambda: getattr(pf, real)(*args)
        return call, kind, mesh, tuple(sig), parents

    def op_build(self, a, op, ctx):
        fn = a["fn"]
        call, kind, mesh, sig, parents = self._call_builder(fn, a)
        for p in parents:
            ctx.relation[p] = "operand"
        try:
            res = call()
        except Exception as ex:
            ctx.status = "raised:" + type(ex).__name__
            self.stats["builder-raised:" + fn] += 1
            return
        cls = self.get(mesh, "m").meta["cls"]
        self.probes["build:%s:%s" % (fn, cls)] += 1
        outs = op["out"] if isinstance(op["out"], list) else [op["out"]]
        recipe = {"fn": fn, "args": list(a["args"]), "sig": sig}
        if kind in ("M", "R", "MR", "BC"):
            e = self.add("t", outs[0], res, {"kind": kind, "mesh": mesh, "recipe": recipe,
                                            "parents": tuple(parents),
                                            "created_kind": "build"})
            e.meta["orig"] = e.snap
            ctx.created.append(outs[0])
            if "I5" in self.inv and kind != "BC":
                self.oracle_runs["I5-ghostrow"] += 1
                leak = O.term_ghost_leak(res, self.get(mesh, "m").obj.dims)
                if leak > 0:
                    self.flag("C04", "I5", "ghost-row:%s" % fn, {"leak": leak, "cls": cls})
            if fn == "transientTerm" and "I6" in self.inv:
                self.check_transient(e, a, ctx)
        elif kind == "f":
            e = self.add("f", outs[0], res, {"mesh": mesh, "recipe": recipe,
                                            "parents": tuple(parents),
                                            "created_kind": "build"})
            e.meta["orig"] = e.snap
            ctx.created.append(outs[0])
        elif kind in ("v*", "f*"):
            rs = res if isinstance(res, tuple) else (res,)
            for i, r in enumerate(rs):
                if i >= len(outs):
                    break
                if kind == "v*":
                    e = self.register_var(outs[i], r, mesh, "default", ctx,
                                          parents=parents, created_kind="build")
                else:
                    e = self.add("f", outs[i], r, {"mesh": mesh, "parents": tuple(parents),
                                                   "created_kind": "build"})
                    ctx.created.append(outs[i])
                e.meta["recipe"] = dict(recipe, index=i)
                e.meta["orig"] = (e.snap, e.der) if kind == "v*" else e.snap
        else:   # plain data
            e = self.add("d", outs[0], res, {"mesh": mesh, "recipe": recipe})
            e.meta["orig"] = e.snap
            ctx.created.append(outs[0])

    def op_term_mod(self, a, op, ctx):
        """`keep = -term` / `keep = k*term`: the user stores the modified term and
        hands the very same object to solvePDE step after step."""
        te = self.get(a["t"], "t")
        if te.meta["kind"] not in ("M", "R"):
            raise Skip("only matrix / vector terms support negation and scaling")
        if not a.get("neg") and a.get("scale") is None and not a.get("fmt"):
            raise Skip("nothing to modify")
        obj = O.apply_mods(te.obj, bool(a.get("neg")), a.get("scale"), a.get("fmt"))
        e = self.add("t", op["out"], obj, {"kind": te.meta["kind"], "mesh": te.meta.get("mesh"),
                                           "parents": (te.name,), "created_kind": "term_mod"})
        e.meta["orig"] = e.snap
        ctx.created.append(op["out"])
        ctx.relation[te.name] = "operand"
        self.probes["term:stored-modified-object"] += 1

    def check_transient(self, e, a, ctx):
        """I6: transient term == (alpha/dt on the diagonal, alpha*old/dt on the RHS)."""
        self.oracle_runs["I6"] += 1
        ve = self.get(a["args"][0], "v")
        ment = self.mesh_of(ve)
        dt = float(a["args"][1])
        al = a["args"][2]
        alpha = self.get(al, "v").meta["val"] if isinstance(al, str) else float(al)
        inner, ghost = O.interior_index(ment.obj.dims)
        n = inner.size + ghost.size
        diag = np.zeros(n)
        diag[inner] = (np.broadcast_to(alpha, ve.meta["val"].shape) / dt).ravel()
        rhs = np.zeros(n)
        rhs[inner] = (alpha * ve.meta["val"] / dt).ravel()
        M, R = e.obj
        e.meta["trans_model"] = (diag, rhs)
        kindl = "field" if isinstance(al, str) else "scalar"
        if not O.mat_equal(M, sp.diags_array(diag, format="csr"), 1e-12):
            self.flag("C12", "I6", "transient/matrix/alpha-%s" % kindl, {"term": e.name})
        elif not same(R, rhs, 1e-12):
            self.flag("C12", "I6", "transient/rhs/alpha-%s" % kindl, {"term": e.name})
        self.probes["transient:alpha-" + kindl] += 1

    def op_rebuild(self, a, op, ctx):
        """I7: a repeated call with equal inputs returns bit-identical results."""
        e = self.get(a["of"])
        rc = e.meta.get("recipe")
        if rc is None or "orig" not in e.meta:
            raise Skip("not rebuildable")
        call, kind, mesh, sig, parents = self._call_builder(rc["fn"], {"args": rc["args"]})
        if sig != rc["sig"]:
            raise Skip("inputs changed since the recorded call")
        for p in parents:
            ctx.relation[p] = "operand"
        self.oracle_runs["I7"] += 1
        try:
            res = call()
        except Exception as ex:
            self.flag("C15", "I7", "%s/raises-on-repeat" % rc["fn"], {"exc": repr(ex)})
            ctx.status = "raised"
            return
        if "index" in rc:
            res = (res if isinstance(res, tuple) else (res,))[rc["index"]]
        if e.kind == "t":
            cur = A.snap_term(res)
        elif e.kind == "f":
            cur = A.snap_face(res)
        elif e.kind == "v":
            cur = A.snap_cell(res)
        else:
            cur = self._snap_data(res)
        if cur != e.meta["orig"]:
            cls = self.get(mesh, "m").meta["cls"]
            self.flag("C15", "I7", "%s/%s" % (rc["fn"], cls), {"of": e.name})
        self.probes["rebuild:" + rc["fn"]] += 1

    # ----------------------------------------------------------- op: scribble
    def op_scribble(self, a, op, ctx):
        """In-place write into an object a previous op returned."""
        e = self.get(a["obj"], ("t", "f", "v", "b"))
        x = float(a.get("x", 7.5))
        try:
            self._scribble(e, a, x, ctx)
        except (Skip, Violation):
            raise
        except Exception as ex:
            ctx.status = "raised:" + type(ex).__name__
            ro = [n for n, arr in (A.face_arrays(e.obj) if e.kind == "f" else
                                   A.term_arrays(e.obj) if e.kind == "t" else [])
                  if hasattr(arr, "flags") and not arr.flags.writeable]
            if ro:
                # an earlier call left this object's arrays read-only (e.g. a *eval
                # whose user function raised): operators / builders never change
                # their operands, and a result is the user's to modify
                det = {"obj": e.name, "arrays": ro[:3], "exc": repr(ex)}
                self.flag("C14", "I2", "operand-left-unwritable/%s" % e.kind, det)
                self.flag("C15", "I1", "scribble/raises-on-valid-edit/%s" % e.kind, det)
        ctx.written.add(e.name)
        self.probes["scribble:" + e.kind] += 1

    def _scribble(self, e, a, x, ctx):
        if e.kind == "t":
            arrs = [arr for _, arr in A.term_arrays(e.obj)
                    if arr.dtype.kind == "f" and arr.size]
            if not arrs:
                raise Skip("nothing to scribble")
            arr = arrs[int(a.get("i", 0)) % len(arrs)]
            ment = self.ents.get(e.meta.get("mesh"))
            n_full = int(np.prod(np.asarray(ment.obj.dims) + 2)) if ment is not None else -1
            if arr.ndim == 1 and arr.size == n_full and e.meta.get("kind") != "BC":
                # a right-hand-side vector: a user edit keeps it a term, i.e. it
                # stays confined to the interior-cell equations
                inner, _ = O.interior_index(ment.obj.dims)
                arr[inner] = arr[inner] * 0.5 + x
            else:
                arr[...] = arr * 0.5 + x
        elif e.kind == "f":
            arrs = [arr for _, arr in A.face_arrays(e.obj) if arr.size]
            arr = arrs[int(a.get("i", 0)) % len(arrs)]
            if arr.dtype.kind != "f":
                raise Skip("not float")
            arr[...] = arr * 0.5 + x
        elif e.kind == "v":
            e.obj.value = e.obj.value * 0.5 + x
            e.meta["last_val_edit"] = self.step
            e.meta["last_val_kind"] = "scribble"
            ctx.i3.append(e.name)
        else:
            nd = len(self.get(e.meta["mesh"], "m").meta["faces"])
            sides = [s for s in A.SIDES if A.SIDE_AXIS[s] < nd]
            face = getattr(e.obj, sides[int(a.get("i", 0)) % len(sides)])
            face.c[...] = np.asarray(face.c) * 0.5 + x
            self._mark_bc_edit(e, "scribble", ctx)

    def op_drop(self, a, op, ctx):
        for n in a["names"]:
            e = self.ents.get(n)
            if e is None:
                continue
            if e.kind == "b" and self.sharers(n):
                continue
            if e.kind == "m" and any(x.meta.get("mesh") == n for x in self.ents.values()):
                continue
            del self.ents[n]
        ctx.status = "ok"

    # ------------------------------------------------ op: C12 fixed-point probe
    def op_fixedpoint(self, a, op, ctx):
        """Steady solution is reproduced by a transient step of any dt, alpha."""
        pf = self.pf
        vent = self.get(a["v"], "v")
        ment = self.mesh_of(vent)
        if not self.bc_ok(vent) or self.bcs_invalid(vent):
            raise Skip("degenerate or invalid BCs")
        if not np.all(np.isfinite(vent.meta["val"])):
            raise Skip("non-finite field")
        items = self._term_items(a["terms"])
        if any(it[0] != "t" or it[1].meta.get("mesh") != ment.name for it in items):
            raise Skip("terms")
        terms = [O.apply_mods(it[1].obj, it[2], it[3]) for it in items]
        for it in items:
            ctx.relation[it[1].name] = "operand"
        ctx.relation[vent.name] = "operand"
        try:
            w = vent.obj.copy()
            pf.solvePDE(w, terms)
        except Exception as ex:
            ctx.status = "raised:" + type(ex).__name__
            return
        steady = A.interior(w)
        if not np.all(np.isfinite(steady)):
            ctx.status = "singular"
            return
        # conditioning guard (tiny systems: dense is fine)
        try:
            Mbc, Rbc = pf.boundaryConditionsTerm(w.BCs)
            M, RHS = O.assemble(Mbc, Rbc, [(it[1].obj, it[2], it[3]) for it in items])
            cond = np.linalg.cond(M.toarray())
        except Exception:
            cond = np.inf
        if not np.isfinite(cond) or cond > 1e8:
            ctx.status = "ill-conditioned"
            return
        dt = float(a["dt"])
        al = a["alpha"]
        if isinstance(al, str):
            ae = self.get(al, "v")
            if ae.meta["mesh"] != ment.name:
                raise Skip("alpha on other mesh")
            if self.bcs_invalid(ae) or not np.all(np.isfinite(ae.meta["val"])) \
                    or float(np.min(ae.meta["val"])) <= 0:
                raise Skip("alpha unusable")
            alpha = ae.obj
            ctx.relation[ae.name] = "operand"
        else:
            alpha = float(al)
        self.oracle_runs["I6"] += 1
        self.probes["fixedpoint:alpha-" + ("field" if isinstance(al, str) else "scalar")] += 1
        w2 = w.copy()
        try:
            tt = pf.transientTerm(w, dt, alpha)
            pf.solvePDE(w2, terms + [tt])
        except Exception as ex:
            self.flag("C12", "I6", "transient/fixed-point/raises", {"exc": repr(ex)})
            return
        new = A.interior(w2)
        scale = max(1.0, float(np.max(np.abs(steady))))
        err = float(np.max(np.abs(new - steady))) if np.all(np.isfinite(new)) else np.inf
        if not err <= 1e-13 * cond * scale + 1e-10 * scale:
            self.flag("C12", "I6", "transient/fixed-point",
                      {"var": vent.name, "err": err, "cond": float(cond), "dt": dt})
        # limits (sampled, with a bound that is an identity of the per-step
        # equation evaluated by dense algebra): dt -> inf gives the steady
        # state, dt -> 0 the old field
        if a.get("limits"):
            tw, _ = self.twin_of(vent)
            if tw is None:
                return
            nd = len(ment.meta["faces"])
            isl = (slice(1, -1),) * nd
            old_full = np.array(A.full_array(tw), copy=True)
            xs_full = np.array(A.full_array(w), copy=True)
            oi = old_full[isl]
            inner, _ = O.interior_index(ment.obj.dims)
            Sd = M.toarray()
            for big in (True, False):
                dtl = 1e9 if big else 1e-9
                w3 = tw.copy()
                try:
                    pf.solvePDE(w3, terms + [pf.transientTerm(tw, dtl, alpha)])
                except Exception:
                    continue
                av = A.interior(alpha) if isinstance(al, str) else np.full(oi.shape, float(alpha))
                T = np.zeros(Sd.shape[0])
                T[inner] = (av / dtl).ravel()
                try:
                    inv = np.linalg.inv(Sd + np.diag(T))
                except Exception:
                    continue
                if big:
                    tgt = steady
                    dev = inv @ (T * (old_full - xs_full).ravel())
                else:
                    tgt = oi
                    dev = inv @ (RHS - Sd @ old_full.ravel())
                sc = max(1.0, float(np.max(np.abs(tgt))), float(np.max(np.abs(oi))))
                bound = 2.0 * float(np.max(np.abs(dev))) + 1e-7 * sc
                e3 = float(np.max(np.abs(A.interior(w3) - tgt)))
                if not (np.isfinite(bound) and np.isfinite(e3)):
                    continue
                self.probes["limit:dt-" + ("inf" if big else "zero")] += 1
                if not e3 <= bound:
                    self.flag("C12", "I6", "transient/limit-%s" % ("inf" if big else "zero"),
                              {"err": e3, "bound": float(bound)})
                    break

    # ------------------------------------------------------- end-of-run checks
    def finish(self):
        """Bounded liveness once faults stop + canaries."""
        ctx = Ctx({"k": "finish", "a": {}})
        if "I3" in self.inv:
            for n in self.names("v"):
                self.check_coherence(self.ents[n], ctx)
                self.stats["liveness-checks"] += 1
        self.check_frame(ctx)

    def digest(self):
        return hsnap(tuple(self.events))
