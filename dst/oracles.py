"""Formulas the harness writes down independently of boundary.py / pdesolver.py
(I4 BC relation, I5 assembly, I6 stepping) plus twin construction."""
import numpy as np
import scipy.sparse as sp

from . import adapter as A
from .util import same

EPS_DEGENERATE = 1e-3


# --------------------------------------------------------------------------
# mesh model: class name + face positions per axis
# --------------------------------------------------------------------------

def faces_from_op(a):
    """Face positions per axis from a mesh op's args (independent of mesh.py)."""
    if a["form"] == "faces":
        return [np.array(f, dtype=float) for f in a["faces"]]
    out = []
    for n, L in zip(a["N"], a["L"]):
        n = int(n)
        out.append(np.arange(0, n + 1) * (float(L) / n))
    return out


def side_shape(dims, side):
    nd = len(dims)
    ax = A.SIDE_AXIS[side]
    if ax >= nd:
        return (0,)
    if nd == 1:
        return (1,)
    return tuple(int(d) for i, d in enumerate(dims) if i != ax)


def side_metric(cls, faces, side):
    """Centre distance ghost<->first inner cell across `side`, per face,
    including the 1/r and 1/(r sin theta) factors of angular directions."""
    nd = len(faces)
    ax = A.SIDE_AXIS[side]
    f = faces[ax]
    h = (f[1] - f[0]) if A.SIDE_LOW[side] else (f[-1] - f[-2])
    dims = [len(x) - 1 for x in faces]
    shp = side_shape(dims, side)
    out = np.full(shp, float(h))
    rc = 0.5 * (faces[0][1:] + faces[0][:-1])
    if ax == 1 and cls in ("PolarGrid2D", "CylindricalGrid3D", "SphericalGrid3D"):
        if nd == 2:
            out = out * rc
        else:
            out = out * rc[:, None]
    if ax == 2 and cls == "SphericalGrid3D":
        tc = 0.5 * (faces[1][1:] + faces[1][:-1])
        out = out * rc[:, None] * np.sin(tc)[None, :]
    return out


def side_layers(full, side):
    """(ghost layer, first inner layer) across `side`, interior in other axes."""
    nd = full.ndim
    ax = A.SIDE_AXIS[side]
    lo = A.SIDE_LOW[side]
    gi = [slice(1, -1)] * nd
    ii = [slice(1, -1)] * nd
    gi[ax] = 0 if lo else -1
    ii[ax] = 1 if lo else -2
    return full[tuple(gi)], full[tuple(ii)]


def opposite_layer(full, side):
    """Interior layer at the far end of the axis (what a periodic ghost wraps to)."""
    nd = full.ndim
    ax = A.SIDE_AXIS[side]
    lo = A.SIDE_LOW[side]
    ii = [slice(1, -1)] * nd
    ii[ax] = -2 if lo else 1
    return full[tuple(ii)]


def axis_periodic(bcs, ax):
    lo, hi = A.AXIS_SIDES[ax]
    return bool(bcs[lo]["periodic"] or bcs[hi]["periodic"])


def ghost_coef(cls, faces, bcs, side):
    """Coefficient multiplying the ghost value in the boundary relation."""
    h = side_metric(cls, faces, side)
    a = np.reshape(bcs[side]["a"], h.shape)
    b = np.reshape(bcs[side]["b"], h.shape)
    if A.SIDE_LOW[side]:
        return -a / h + b / 2.0
    return a / h + b / 2.0


def bc_degenerate(cls, faces, bcs):
    """True when some non-periodic face has a (near) zero ghost coefficient or
    non-finite data: the boundary relation does not determine the ghost value."""
    nd = len(faces)
    for ax in range(nd):
        if axis_periodic(bcs, ax):
            continue
        for side in A.AXIS_SIDES[ax]:
            for c in ("a", "b", "c"):
                if not np.all(np.isfinite(bcs[side][c])):
                    return True
            g = ghost_coef(cls, faces, bcs, side)
            if g.size and float(np.min(np.abs(g))) < EPS_DEGENERATE:
                return True
    return False


def radial_periodic(cls, bcs):
    return cls in A.RADIAL and axis_periodic(bcs, 0)


def bc_relation_failures(cls, faces, bcs, full, rtol=1e-10):
    """I4: list of (axis, kind, side, maxresidual) where the reported boundary
    values do not satisfy the configured conditions."""
    nd = len(faces)
    bad = []
    for ax in range(nd):
        per = axis_periodic(bcs, ax)
        for side in A.AXIS_SIDES[ax]:
            g, p = side_layers(full, side)
            if per:
                w = opposite_layer(full, side)
                if not np.array_equal(g, w, equal_nan=True):
                    bad.append((ax, "periodic", side, float(np.nanmax(np.abs(g - w)))))
                continue
            h = side_metric(cls, faces, side)
            a = np.reshape(bcs[side]["a"], h.shape)
            b = np.reshape(bcs[side]["b"], h.shape)
            c = np.reshape(bcs[side]["c"], h.shape)
            g = np.reshape(g, h.shape)
            p = np.reshape(p, h.shape)
            if A.SIDE_LOW[side]:
                dq = (p - g) / h
            else:
                dq = (g - p) / h
            lhs = a * dq + b * (g + p) / 2.0
            scale = (np.abs(a) * (np.abs(g) + np.abs(p)) / h
                     + np.abs(b) * (np.abs(g) + np.abs(p)) / 2.0 + np.abs(c) + 1e-300)
            with np.errstate(all="ignore"):
                res = np.abs(lhs - c) / scale
            ok = np.isfinite(res) & (res <= rtol)
            # a non-periodic axis must not merely wrap (unless Robin says so)
            if not np.all(ok):
                bad.append((ax, "robin", side,
                            float(np.nanmax(np.where(np.isfinite(res), res, np.inf)))))
    return bad


def interior_index(dims):
    """Flat indices (C order over dims+2) of interior cells, and of ghost cells."""
    shp = tuple(int(d) + 2 for d in dims)
    G = np.arange(int(np.prod(shp))).reshape(shp)
    inner = G[(slice(1, -1),) * len(shp)].ravel()
    mask = np.ones(G.size, dtype=bool)
    mask[inner] = False
    return inner, np.nonzero(mask)[0]


def face_ghost_rows(dims):
    """Flat indices of ghost cells that sit across a boundary *face*
    (excluding the corner / edge cells of 2-D and 3-D arrays)."""
    shp = tuple(int(d) + 2 for d in dims)
    nd = len(shp)
    G = np.arange(int(np.prod(shp))).reshape(shp)
    rows = {}
    for side in A.SIDES:
        ax = A.SIDE_AXIS[side]
        if ax >= nd:
            continue
        idx = [slice(1, -1)] * nd
        idx[ax] = 0 if A.SIDE_LOW[side] else -1
        rows[side] = G[tuple(idx)].ravel()
    return rows


def term_ghost_leak(term, dims):
    """I5: largest |entry| a term puts into a ghost (boundary-equation) row."""
    _, ghost = interior_index(dims)
    worst = 0.0
    parts = term if isinstance(term, tuple) else (term,)
    for t in parts:
        if hasattr(t, "tocsr"):
            M = sp.csr_array(t)
            sub = M[ghost, :]
            if sub.nnz:
                worst = max(worst, float(np.max(np.abs(sub.data))))
        else:
            v = np.asarray(t, dtype=float).ravel()
            if v.size == 0:
                continue
            with np.errstate(all="ignore"):
                x = np.abs(v[ghost])
            x = x[~np.isnan(x)]
            if x.size:
                worst = max(worst, float(np.max(x)))
    return worst


def apply_mods(term, neg, scale, fmt=None):
    """The user-side expression `[-](scale*)term` for matrix / vector kinds,
    optionally handed over in another sparse format."""
    t = term
    if fmt and hasattr(t, "tocsr"):
        t = {"csc": t.tocsc, "coo": t.tocoo, "csr": t.tocsr}[fmt]()
    if scale is not None:
        t = scale * t
    if neg:
        t = -t
    return t


def with_explicit_zero(M):
    """The same matrix with one explicitly stored zero (what block assembly
    through COO, `M[i, j] = 0.0` or a scaled single-term matrix leave behind):
    mathematically identical, but a callee that "normalises" its argument in
    place changes the caller's arrays."""
    coo = sp.coo_array(M)
    n = M.shape[0]
    data = np.r_[coo.data.astype(float), 0.0]
    row = np.r_[coo.row, 0]
    col = np.r_[coo.col, n - 1]
    out = sp.csr_array((data, (row, col)), shape=M.shape)
    return out


def assemble(Mbc, RHSbc, items):
    """Independent sum of a term list: items = [(term, neg, scale)]."""
    M = sp.csr_array(Mbc, copy=True).astype(float)
    RHS = np.array(RHSbc, dtype=float, copy=True)
    for term, neg, scale in items:
        f = (-1.0 if neg else 1.0) * (1.0 if scale is None else float(scale))
        if isinstance(term, tuple):
            M = M + f * sp.csr_array(term[0])
            RHS = RHS + f * np.asarray(term[1], dtype=float)
        elif hasattr(term, "tocsr"):
            M = M + f * sp.csr_array(term)
        else:
            RHS = RHS + f * np.asarray(term, dtype=float)
    return sp.csr_array(M), RHS


def backward_residual(M, RHS, x):
    """max_i |(Mx-b)_i| / (|M| |x| + |b|)_i  (row-wise, conditioning free)."""
    x = np.asarray(x, dtype=float).ravel()
    with np.errstate(all="ignore"):
        r = np.abs(M @ x - RHS)
        d = abs(M) @ np.abs(x) + np.abs(RHS)
        q = r / np.where(d > 0, d, 1.0)
    if not np.all(np.isfinite(q)):
        return float("inf")
    return float(q.max()) if q.size else 0.0


def mat_equal(M1, M2, rtol=1e-12):
    M1 = sp.csr_array(M1)
    M2 = sp.csr_array(M2)
    if M1.shape != M2.shape:
        return False
    D = (M1 - M2)
    if D.nnz == 0:
        return True
    with np.errstate(all="ignore"):
        scale = max(1.0, float(np.nanmax(np.abs(M1.data))) if M1.nnz else 1.0)
        d = np.abs(D.data)
    if np.isnan(d).any():
        # NaN entries must sit at the same places
        return same(M1.toarray(), M2.toarray(), rtol)
    return float(d.max()) <= rtol * scale


# --------------------------------------------------------------------------
# twins
# --------------------------------------------------------------------------

def build_bc(pf, mesh, bcs):
    """A fresh BC object carrying the visible state `bcs` (public API only)."""
    bc = pf.BoundaryConditions(mesh)
    nd = A.mesh_ndim(mesh)
    for side in A.SIDES:
        if A.SIDE_AXIS[side] >= nd:
            continue
        f = getattr(bc, side)
        st = bcs[side]
        f.a = np.array(st["a"], copy=True)
        f.b = np.array(st["b"], copy=True)
        f.c = np.array(st["c"], copy=True)
        if st["periodic"]:
            f.periodic = True
    return bc


def build_twin(pf, mesh, bcs, interior):
    """A freshly constructed variable with the same interior values and BCs."""
    bc = build_bc(pf, mesh, bcs)
    return pf.CellVariable(mesh, np.array(interior, dtype=float, copy=True), bc)
