"""Minimisation of a failing op list: ddmin, then per-op simplification.
A candidate is accepted only if the same violation class
(property, invariant, signature) recurs."""
import copy

from . import adapter as A
from . import descr
from .run import replay


SHADOW = True      # set by shrink(): the oracle configuration of the run being minimised


def _fails(prop, ops, vclass, budget, shadow=True):
    if budget[0] <= 0:
        return False
    budget[0] -= 1
    try:
        # pristine library state for every candidate (module-level caches inside
        # PyFVTool would otherwise carry over from the previous candidate and a
        # shrunk trace might fail only because of them)
        A.reset()
        r = replay(prop, ops, shadow=SHADOW)
    except Exception:
        return False
    return r["vclass"] == vclass


def ddmin(prop, ops, vclass, budget):
    n = 2
    ops = list(ops)
    while len(ops) >= 2 and budget[0] > 0:
        chunk = max(1, len(ops) // n)
        reduced = False
        i = 0
        while i < len(ops):
            cand = ops[:i] + ops[i + chunk:]
            if cand and _fails(prop, cand, vclass, budget):
                ops = cand
                n = max(n - 1, 2)
                reduced = True
            else:
                i += chunk
        if not reduced:
            if chunk == 1:
                break
            n = min(len(ops), n * 2)
    return ops


def _simpler_ops(op):
    """Yield simpler variants of one op."""
    a = op.get("a", {})
    k = op["k"]

    def with_a(**kw):
        o = copy.deepcopy(op)
        o["a"].update(kw)
        return o

    if k == "mesh":
        if a["form"] == "faces":
            nd = len(a["faces"])
            # uniform N/L form with the same cell counts
            o = with_a(form="NL", N=[len(f) - 1 for f in a["faces"]], L=[1.0] * nd)
            o["a"].pop("faces", None)
            yield o
            for ax in range(nd):
                if len(a["faces"][ax]) > 3:
                    f = copy.deepcopy(a["faces"])
                    f[ax] = f[ax][:-1]
                    yield with_a(faces=f)
        else:
            for ax in range(len(a["N"])):
                if a["N"][ax] > 2:
                    N = list(a["N"])
                    N[ax] -= 1
                    yield with_a(N=N)
            if any(abs(L - 1.0) > 1e-12 for L in a["L"]):
                yield with_a(L=[1.0] * len(a["L"]))
    for key in ("val", "rhs"):
        d = a.get(key)
        if isinstance(d, dict) and "d" in d:
            for s in descr.simplify(d):
                if d.get("scalar"):
                    s = dict(s, scalar=True)
                yield with_a(**{key: s})
        elif isinstance(d, list):
            for i, x in enumerate(d):
                if isinstance(x, dict) and "d" in x:
                    for s in descr.simplify(x):
                        nl = copy.deepcopy(d)
                        nl[i] = s
                        yield with_a(**{key: nl})
                        break
    if k in ("bc_edit", "val_edit") and a.get("how") in ("slice", "item2", "slice2"):
        yield with_a(how="assign")
    if k == "solve":
        if a.get("solver") in ("ext", "ext_mark", "def_record"):
            yield with_a(solver=None)
        if len(a.get("terms", [])) > 1:
            for i in range(len(a["terms"])):
                yield with_a(terms=a["terms"][:i] + a["terms"][i + 1:])
        for i, t in enumerate(a.get("terms", [])):
            if t.get("scale") is not None:
                nt = copy.deepcopy(a["terms"])
                nt[i].pop("scale")
                yield with_a(terms=nt)
    if k == "build" and a.get("fn") == "transientTerm":
        if a["args"][1] != 1.0 or a["args"][2] != 1.0:
            yield with_a(args=[a["args"][0], 1.0, 1.0])


def simplify_ops(prop, ops, vclass, budget):
    ops = list(ops)
    changed = True
    while changed and budget[0] > 0:
        changed = False
        for i in range(len(ops)):
            for cand_op in _simpler_ops(ops[i]):
                cand = ops[:i] + [cand_op] + ops[i + 1:]
                if _fails(prop, cand, vclass, budget):
                    ops = cand
                    changed = True
                    break
    return ops


def shrink(prop, ops, vclass, max_exec=400, shadow=True):
    global SHADOW
    SHADOW = bool(shadow)
    budget = [max_exec]
    ops = [dict(o) for o in ops]
    for o in ops:
        o.pop("task", None)
    if not _fails(prop, ops, vclass, budget):
        return None
    prev = None
    while prev != len(ops) and budget[0] > 0:
        prev = len(ops)
        ops = ddmin(prop, ops, vclass, budget)
    ops = simplify_ops(prop, ops, vclass, budget)
    ops = ddmin(prop, ops, vclass, budget)
    return ops
