"""Stratified seeds: plans that cover the *finite* cross-product strata of a
property's quantifier systematically, beside the online random generator.

A stratified run is still one simulated run of the same engine: a JSON op list
executed on real PyFVTool objects under the same invariants, shrinkable and
replayable like any other.  What differs is where the op list comes from: the
run index is decoded (mixed radix) into one cell of a small product space --
e.g. (grid class) x (a history of <= k letters over a 31-letter edit / solve /
fault alphabet) -- and everything the stratum leaves open (mesh spacing, which
side is edited, coefficient values) is drawn from a PRNG seeded by the index.
Random search visits short histories and operator x operand matrices only by
chance; the strata make "every history up to depth k on every grid class",
"every operator x operand kind x class", "every builder x class", "every
periodic pattern x condition kind per side", "dt over 12 decades" facts of a
batch rather than probabilities.  A batch samples the index space without
replacement (seeded affine permutation); the evidence reports the fraction of
each space that was visited.
"""
import hashlib
import math
import random

from . import adapter as A
from .gen import make_mesh_op
from .world import BUILDERS, PURE_FUNCS, FLUX_LIMITERS, UPWIND2_CLASSES

CLASSES = A.GRID_CLASSES
NCLS = len(CLASSES)


MASTER = 0      # VERIF_SEED of the batch: decides what a stratum leaves open


def _rng(tag, index):
    h = hashlib.sha256(("%s|%d|%d" % (tag, int(index), int(MASTER))).encode()).digest()
    return random.Random(int.from_bytes(h[:6], "big"))


def _r(rng, lo, hi, nd=2):
    return round(rng.uniform(lo, hi), nd)


def _seed(rng):
    return rng.randrange(1 << 30)


def _sides(cls):
    nd = A.GRID_NDIM[cls]
    return [s for s in A.SIDES if A.SIDE_AXIS[s] < nd]


def _free_sides(cls):
    """Sides on which periodic is meaningful (not a radial side)."""
    return [s for s in _sides(cls) if not (A.SIDE_AXIS[s] == 0 and cls in A.RADIAL)]


def _coef(rng, side, coef, scalar=None):
    """Coefficient descriptor, well separated and away from degenerate Robin data
    (same sign convention as the online editor)."""
    low = A.SIDE_LOW[side]
    if coef == "c":
        lo, hi = -2.0, 2.0
    elif coef == "a":
        lo, hi = 0.5, 2.0
    else:
        lo, hi = (-2.0, -0.5) if low else (0.5, 2.0)
    if scalar is None:
        scalar = rng.random() < 0.5
    if scalar:
        return {"d": "const", "x": _r(rng, lo, hi), "scalar": True}
    return {"d": "rand", "lo": lo, "hi": hi, "s": _seed(rng)}


def _vdesc(rng, palette="real"):
    d = _vdesc0(rng, palette)
    if rng.random() < 0.1:
        d["lay"] = rng.choice(("F", "strided"))
    return d


def _vdesc0(rng, palette="real"):
    if palette == "ints":
        return {"d": "ints", "lo": -2, "hi": 2, "s": _seed(rng)}
    if palette == "zeros":
        return {"d": "zmix", "lo": -2.0, "hi": 2.0, "s": _seed(rng)}
    if palette == "pos":
        return {"d": "rand", "lo": 0.5, "hi": 3.0, "s": _seed(rng)}
    return {"d": "rand", "lo": -2.0, "hi": 3.0, "s": _seed(rng)}


def _slspec(rng, n):
    return [[rng.randrange(8), rng.randrange(8)] for _ in range(n)]


def _mesh(rng, cls, out="m1", maxcells=3):
    return make_mesh_op(rng, cls, maxcells, rng.random() < 0.5, out)


def _robin_setup(rng, cls, b=None, bv=None, p=0.7):
    """A few utility / coefficient edits so that the starting BCs are not the default."""
    ops = []
    for s in _sides(cls):
        if rng.random() > p:
            continue
        tgt = {"b": b} if b else {"bv": bv}
        u = rng.random()
        if u < 0.35:
            ops.append({"k": "bc_util", "a": dict(tgt, side=s, fn="fixedValue",
                                                  val={"d": "rand", "lo": -2.0, "hi": 2.0, "s": _seed(rng)})})
        elif u < 0.6:
            ops.append({"k": "bc_util", "a": dict(tgt, side=s, fn="newtonCooling",
                                                  kk=_r(rng, 0.5, 2.0), h=_r(rng, 0.5, 2.0),
                                                  T=_r(rng, -1.0, 3.0), rev=A.SIDE_LOW[s])})
        else:
            for coef in "abc":
                ops.append({"k": "bc_edit", "a": dict(tgt, side=s, coef=coef, how="assign",
                                                      val=_coef(rng, s, coef, scalar=False),
                                                      sl=_slspec(rng, 2))})
    return ops


# ===========================================================================
# family "hist": every history of <= depth letters, per grid class
# ===========================================================================

HIST_LETTERS = (
    "c_assign", "a_slice", "b_item2", "c_imul", "view_write", "fixedValue",
    "defaultNoFlux", "newtonCooling", "periodic_on", "periodic_off", "scale3",
    "val_assign", "val_slice", "update_value", "apply_A", "apply_B", "solve_A",
    "solve_B", "explicit_A", "explicit_B", "copy_A", "newvar_shared",
    "solve_A_solver_raises", "solve_A_solver_scribbles", "solve_B_unknown_term",
    "operator_A", "untracked_then_remedy", "utility_fails_half_way",
    "apply_A_alloc_fails", "solve_A_alloc_fails", "aux_noprecalc_consumes",
)
NL = len(HIST_LETTERS)


def hist_size(depth):
    return NCLS * sum(NL ** d for d in range(1, depth + 1))


def hist_decode(index, depth):
    cls = CLASSES[index % NCLS]
    j = index // NCLS
    for d in range(1, depth + 1):
        if j < NL ** d:
            seq = []
            for _ in range(d):
                seq.append(j % NL)
                j //= NL
            return cls, tuple(seq)
        j -= NL ** d
    raise IndexError(index)


class _HistState:
    def __init__(self, rng, cls):
        self.rng = rng
        self.cls = cls
        self.A = "vA"
        self.B = "vB"
        self.n = 0
        self.per_side = None
        self.side = None

    def fresh(self, p):
        self.n += 1
        return "%s%d" % (p, self.n)


def _solve_ops(st, v, mode=None, bad=None):
    rng = st.rng
    tt = st.fresh("tT")
    ops = [{"k": "build", "out": tt,
            "a": {"fn": "transientTerm", "args": [v, _r(rng, 0.05, 2.0, 3), _r(rng, 0.5, 3.0)]}}]
    specs = [{"t": tt}, {"t": "tD", "neg": True}]
    if bad:
        specs.insert(rng.randrange(len(specs) + 1), {"bad": bad})
    ops.append({"k": "solve", "a": {"v": v, "terms": specs, "solver": mode}})
    return ops


def _hist_letter(st, name):
    rng = st.rng
    cls = st.cls
    # interactions between edits, faults and consumers are mostly per face: stay on
    # the face of the previous letter most of the time
    if st.side is None or rng.random() < 0.35:
        st.side = rng.choice(_sides(cls))
    side = st.side
    tgt = {"bv": st.A}
    if name == "c_assign":
        return [{"k": "bc_edit", "a": dict(tgt, side=side, coef="c", how="assign",
                                           val=_coef(rng, side, "c"), sl=_slspec(rng, 2))}]
    if name == "a_slice":
        return [{"k": "bc_edit", "a": dict(tgt, side=side, coef="a", how="slice",
                                           val=_coef(rng, side, "a", scalar=False),
                                           sl=_slspec(rng, 2))}]
    if name == "b_item2":
        return [{"k": "bc_edit", "a": dict(tgt, side=side, coef="b", how="item2",
                                           val=_coef(rng, side, "b", scalar=False),
                                           sl=_slspec(rng, 2), sl2=_slspec(rng, 1))}]
    if name == "c_imul":
        return [{"k": "bc_edit", "a": dict(tgt, side=side, coef="c", how="imul",
                                           k=_r(rng, 1.3, 2.0), sl=_slspec(rng, 2))}]
    if name == "view_write":
        return [{"k": "view_write", "a": {"w": "w1", "val": _coef(rng, "right", "c")}}]
    if name == "fixedValue":
        return [{"k": "bc_util", "a": dict(tgt, side=side, fn="fixedValue",
                                           val={"d": "const", "x": _r(rng, -2.0, 2.0), "scalar": True}
                                           if rng.random() < 0.5 else
                                           {"d": "rand", "lo": -2.0, "hi": 2.0, "s": _seed(rng)})}]
    if name == "defaultNoFlux":
        return [{"k": "bc_util", "a": dict(tgt, side=side, fn="defaultNoFlux")}]
    if name == "newtonCooling":
        return [{"k": "bc_util", "a": dict(tgt, side=side, fn="newtonCooling",
                                           kk=_r(rng, 0.5, 2.0), h=_r(rng, 0.5, 2.0),
                                           T=_r(rng, -1.0, 3.0), rev=A.SIDE_LOW[side])}]
    if name in ("periodic_on", "periodic_off"):
        free = _free_sides(cls)
        if not free:
            # 1-D radial classes: no meaningful periodic side; an inhomogeneous
            # Neumann edit instead
            return [{"k": "bc_util", "a": dict(tgt, side=side, fn="fixedGradient",
                                               val={"d": "const", "x": _r(rng, -2.0, 2.0),
                                                    "scalar": True})}]
        if name == "periodic_on":
            st.per_side = rng.choice(free)
            return [{"k": "bc_periodic", "a": dict(tgt, side=st.per_side, on=True)}]
        s = st.per_side or rng.choice(free)
        return [{"k": "bc_periodic", "a": dict(tgt, side=s, on=False)}]
    if name == "scale3":
        return [{"k": "bc_scale", "a": dict(tgt, side=side,
                                            k={"d": "rand", "lo": 0.3, "hi": 3.0, "s": _seed(rng)},
                                            neg=rng.random() < 0.5)}]
    if name == "val_assign":
        return [{"k": "val_edit", "a": {"v": st.A, "how": "assign", "val": _vdesc(rng)}}]
    if name == "val_slice":
        return [{"k": "val_edit", "a": {"v": st.A, "how": "slice", "sl": _slspec(rng, 3),
                                        "val": _vdesc(rng)}}]
    if name == "update_value":
        return [{"k": "val_edit", "a": {"v": st.A, "how": "update", "src": "vC"}}]
    if name == "apply_A":
        return [{"k": "apply", "a": {"v": st.A}}]
    if name == "apply_B":
        return [{"k": "apply", "a": {"v": st.B}}]
    if name == "solve_A":
        return _solve_ops(st, st.A)
    if name == "solve_B":
        return _solve_ops(st, st.B)
    if name in ("explicit_A", "explicit_B"):
        v = st.A if name == "explicit_A" else st.B
        out = st.fresh("vE")
        op = {"k": "explicit", "out": out, "outb": st.fresh("bE"),
              "a": {"v": v, "dt": _r(rng, 0.001, 0.2, 4),
                    "rhs": {"d": "rand", "lo": -1.0, "hi": 1.0, "s": _seed(rng)}}}
        if name == "explicit_A":
            st.A = out
        return [op]
    if name == "copy_A":
        out = st.fresh("vK")
        op = {"k": "copy", "out": out, "outb": st.fresh("bK"), "a": {"v": st.A}}
        st.A = out
        return [op]
    if name == "newvar_shared":
        out = st.fresh("vN")
        op = {"k": "var", "out": out, "a": {"m": "m1", "val": _vdesc(rng), "bcv": st.A}}
        st.B = out
        return [op]
    if name == "solve_A_solver_raises":
        return _solve_ops(st, st.A, mode="ext_raise")
    if name == "solve_A_solver_scribbles":
        return _solve_ops(st, st.A, mode="ext_scribble_raise")
    if name == "solve_B_unknown_term":
        return _solve_ops(st, st.B, bad="ndim3")
    if name == "aux_noprecalc_consumes":
        # an auxiliary field without cached boundary term on the same BC object is
        # refreshed first (apply_BCs, or as the input of an explicit step)
        out = st.fresh("vX")
        ops = [{"k": "var", "out": out, "a": {"m": "m1", "val": _vdesc(rng), "bcv": st.A,
                                              "noprecalc": True}}]
        if rng.random() < 0.6:
            ops.append({"k": "apply", "a": {"v": out}})
        else:
            ops.append({"k": "explicit", "out": st.fresh("vE"), "outb": st.fresh("bE"),
                        "a": {"v": out, "dt": 0.01,
                              "rhs": {"d": "rand", "lo": -1.0, "hi": 1.0, "s": _seed(rng)}}})
        return ops
    if name == "apply_A_alloc_fails":
        return [{"k": "apply", "a": {"v": st.A, "inner": rng.choice(("alloc_cache", "alloc_ghost")),
                                     "nth": 1}}]
    if name == "solve_A_alloc_fails":
        ops = _solve_ops(st, st.A)
        ops[-1]["a"].update({"inner": rng.choice(("alloc_cache", "alloc_cache", "alloc_ghost")),
                             "nth": rng.choice((1, 2))})
        return ops
    if name == "utility_fails_half_way":
        # documented ValueError after a and b were already overwritten
        return [{"k": "bc_util", "a": dict(tgt, side=side, fn=rng.choice(("fixedValue", "fixedGradient")),
                                           wrong_shape=True)}]
    if name == "untracked_then_remedy":
        coef = rng.choice(("a", "b", "c"))
        return [{"k": "bc_untracked", "a": dict(tgt, side=side, coef=coef,
                                                how=rng.choice(("fill", "copyto", "ufunc_out", "put")),
                                                remedy=rng.choice(("apply", "flag")),
                                                val=_coef(rng, side, coef))}]
    if name == "operator_A":
        out = st.fresh("vO")
        op = {"k": "binop", "out": out, "outb": st.fresh("bO"),
              "a": {"op": "mul", "l": {"v": st.A}, "r": {"s": _r(rng, 1.5, 2.5)}}}
        st.A = out
        return [op]
    raise KeyError(name)


def plan_hist(index, depth):
    cls, seq = hist_decode(index, depth)
    rng = _rng("hist", index)
    st = _HistState(rng, cls)
    ops = [_mesh(rng, cls),
           {"k": "bc", "out": "b1", "a": {"m": "m1"}}]
    if rng.random() < 0.6:
        ops += _robin_setup(rng, cls, b="b1", p=0.5)
    # both construction styles for the main variable: interior array, or an array
    # that already includes the ghost cells (float or integer storage)
    va = {"m": "m1", "val": _vdesc(rng), "bc": "b1"}
    u = rng.random()
    if u < 0.2:
        va["ghosts"] = True
    elif u < 0.3:
        va.update({"ghosts": True, "dtype": "int",
                   "val": {"d": "ints", "lo": -2, "hi": 2, "s": _seed(rng)}})
    elif u < 0.4:
        va.update({"scalar": True, "val": {"d": "const", "x": _r(rng, 0.5, 3.0)}})
    ops += [{"k": "var", "out": "vA", "a": va},
            {"k": "var", "out": "vB", "a": {"m": "m1", "val": _vdesc(rng), "bc": "b1"}},
            {"k": "var", "out": "vC", "outb": "bC", "a": {"m": "m1", "val": _vdesc(rng)}},
            {"k": "face", "out": "fD", "a": {"m": "m1", "scalar": _r(rng, 0.5, 2.0)}},
            {"k": "build", "out": "tD", "a": {"fn": "diffusionTerm", "args": ["fD"]}},
            {"k": "view_take", "out": "w1",
             "a": {"b": "b1", "side": rng.choice(_sides(cls)), "coef": "c",
                   "sl": _slspec(rng, 2)}}]
    for li in seq:
        ops += _hist_letter(st, HIST_LETTERS[li])
    label = "%s:%s" % (cls, ">".join(HIST_LETTERS[i] for i in seq))
    return ops, label


# ===========================================================================
# family "bcmatrix" (C03): periodic pattern per axis x condition kind per side
# ===========================================================================

PER_PATTERNS = ("none", "low", "high", "both")
KINDS = ("D", "N", "R")


def _bc_axes(cls):
    nd = A.GRID_NDIM[cls]
    return [len(PER_PATTERNS) if not (ax == 0 and cls in A.RADIAL) else 1 for ax in range(nd)]


def bcmatrix_size_cls(cls):
    n = 1
    for k in _bc_axes(cls):
        n *= k
    return n * len(KINDS) ** (2 * A.GRID_NDIM[cls])


def bcmatrix_size(dims=(1, 2, 3)):
    return sum(bcmatrix_size_cls(c) for c in CLASSES if A.GRID_NDIM[c] in dims)


def bcmatrix_decode(index, dims=(1, 2, 3)):
    for cls in CLASSES:
        if A.GRID_NDIM[cls] not in dims:
            continue
        n = bcmatrix_size_cls(cls)
        if index < n:
            pats = []
            for k in _bc_axes(cls):
                pats.append(PER_PATTERNS[index % k])
                index //= k
            kinds = []
            for _ in range(2 * A.GRID_NDIM[cls]):
                kinds.append(KINDS[index % 3])
                index //= 3
            return cls, tuple(pats), tuple(kinds)
        index -= n
    raise IndexError(index)


def _kind_ops(rng, tgt, side, kind):
    if kind == "D":
        if rng.random() < 0.5:
            return [{"k": "bc_util", "a": dict(tgt, side=side, fn="fixedValue",
                                               val={"d": "rand", "lo": -2.0, "hi": 2.0, "s": _seed(rng)})}]
        # Dirichlet written with b != 1
        return [{"k": "bc_edit", "a": dict(tgt, side=side, coef="a", how="assign",
                                           val={"d": "const", "x": 0.0, "scalar": True}, sl=[])},
                {"k": "bc_edit", "a": dict(tgt, side=side, coef="b", how="assign",
                                           val=_coef(rng, side, "b", scalar=False), sl=[])},
                {"k": "bc_edit", "a": dict(tgt, side=side, coef="c", how="assign",
                                           val=_coef(rng, side, "c", scalar=False), sl=[])}]
    if kind == "N":
        if rng.random() < 0.5:
            a = dict(tgt, side=side, fn="fixedGradient",
                     val={"d": "rand", "lo": -2.0, "hi": 2.0, "s": _seed(rng)})
            if rng.random() < 0.4:
                a["scale"] = _r(rng, 0.5, 3.0)
            return [{"k": "bc_util", "a": a}]
        return [{"k": "bc_edit", "a": dict(tgt, side=side, coef="b", how="assign",
                                           val={"d": "const", "x": 0.0, "scalar": True}, sl=[])},
                {"k": "bc_edit", "a": dict(tgt, side=side, coef="a", how="assign",
                                           val=_coef(rng, side, "a", scalar=False), sl=[])},
                {"k": "bc_edit", "a": dict(tgt, side=side, coef="c", how="assign",
                                           val=_coef(rng, side, "c", scalar=False), sl=[])}]
    return [{"k": "bc_edit", "a": dict(tgt, side=side, coef=coef, how="assign",
                                       val=_coef(rng, side, coef, scalar=False), sl=[])}
            for coef in "abc"]


def plan_bcmatrix(index, dims=(1, 2, 3)):
    cls, pats, kinds = bcmatrix_decode(index, dims)
    rng = _rng("bcmatrix", index)
    sides = _sides(cls)
    ops = [_mesh(rng, cls), {"k": "bc", "out": "b1", "a": {"m": "m1"}}]
    tgt = {"b": "b1"}
    cfg = []
    for s, kd in zip(sides, kinds):
        cfg += _kind_ops(rng, tgt, s, kd)
    for ax, pat in enumerate(pats):
        lo, hi = A.AXIS_SIDES[ax]
        if pat in ("low", "both"):
            cfg.append({"k": "bc_periodic", "a": dict(tgt, side=lo, on=True)})
        if pat in ("high", "both"):
            cfg.append({"k": "bc_periodic", "a": dict(tgt, side=hi, on=True)})
    rng.shuffle(cfg)      # the order of independent edits must not matter
    order = rng.random()
    var = {"k": "var", "out": "vA", "a": {"m": "m1", "val": _vdesc(rng), "bc": "b1"}}
    if order < 0.5:
        ops += cfg + [var]                       # configured, then constructed
    else:
        ops += [var] + cfg + [{"k": "apply", "a": {"v": "vA"}}]   # constructed, edited, applied
    ops += [{"k": "face", "out": "fD", "a": {"m": "m1", "val": [
                {"d": "rand", "lo": 0.3, "hi": 2.0, "s": _seed(rng)} for _ in range(3)]}},
            {"k": "build", "out": "tD", "a": {"fn": "diffusionTerm", "args": ["fD"]}},
            {"k": "build", "out": "tT", "a": {"fn": "transientTerm",
                                              "args": ["vA", _r(rng, 0.05, 2.0, 3), _r(rng, 0.5, 3.0)]}},
            {"k": "solve", "a": {"v": "vA", "terms": [{"t": "tT"}, {"t": "tD", "neg": True}],
                                 "solver": None}},
            {"k": "explicit", "out": "vE", "outb": "bE",
             "a": {"v": "vA", "dt": _r(rng, 0.001, 0.1, 4),
                   "rhs": {"d": "rand", "lo": -1.0, "hi": 1.0, "s": _seed(rng)}}},
            # the same conditions written with other numbers
            {"k": "bc_scale", "a": dict(tgt, side=rng.choice(sides),
                                        k={"d": "rand", "lo": 0.3, "hi": 3.0, "s": _seed(rng)},
                                        neg=rng.random() < 0.5)},
            {"k": "apply", "a": {"v": "vA"}},
            # switch the periodic flags off again: Robin relation is back in force
            ]
    for ax, pat in enumerate(pats):
        lo, hi = A.AXIS_SIDES[ax]
        if pat in ("low", "both"):
            ops.append({"k": "bc_periodic", "a": dict(tgt, side=lo, on=False)})
        if pat in ("high", "both"):
            ops.append({"k": "bc_periodic", "a": dict(tgt, side=hi, on=False)})
    if any(p != "none" for p in pats):
        ops.append({"k": "apply", "a": {"v": "vA"}})
        ops.append({"k": "solve", "a": {"v": "vA", "terms": [{"t": "tT"}, {"t": "tD", "neg": True}],
                                        "solver": None}})
    if rng.random() < 0.5:
        # a second mesh of the same class, cell counts and extents, other interior
        # spacing, configured the same way: its ghost values follow *its* geometry
        m1 = ops[0]["a"]
        if m1["form"] == "faces":
            base = [list(f) for f in m1["faces"]]
        else:
            base = [[round(i * float(L) / int(n), 6) for i in range(int(n) + 1)]
                    for n, L in zip(m1["N"], m1["L"])]
        faces2 = []
        for f in base:
            n = len(f) - 1
            if n < 2:
                faces2.append(f)
                continue
            w = [rng.uniform(0.5, 1.5) for _ in range(n)]
            tot = sum(w)
            acc = f[0]
            g2 = [f[0]]
            for x in w[:-1]:
                acc += (f[-1] - f[0]) * x / tot
                g2.append(round(acc, 6))
            g2.append(f[-1])
            faces2.append(g2)
        ops.append({"k": "mesh", "out": "m2", "a": {"cls": cls, "form": "faces", "faces": faces2,
                                                    "regraded_from": "m1"}})
        ops.append({"k": "bc", "out": "b2", "a": {"m": "m2"}})
        for o in cfg:
            o2 = {"k": o["k"], "a": dict(o["a"], b="b2")}
            ops.append(o2)
        ops.append({"k": "var", "out": "vA2", "a": {"m": "m2", "val": _vdesc(rng), "bc": "b2"}})
        ops.append({"k": "build", "out": "tD2", "a": {"fn": "diffusionTerm", "args": ["fD2"]}})
        ops.insert(len(ops) - 1, {"k": "face", "out": "fD2", "a": {"m": "m2", "scalar": 1.0}})
        ops.append({"k": "build", "out": "tT2", "a": {"fn": "transientTerm", "args": ["vA2", 0.5, 1.0]}})
        ops.append({"k": "solve", "a": {"v": "vA2", "terms": [{"t": "tT2"}, {"t": "tD2", "neg": True}],
                                        "solver": None}})
    label = "%s:%s:%s" % (cls, "".join(p[0] for p in pats), "".join(kinds))
    return ops, label


# ===========================================================================
# family "algebra" (C14): operator x operand kinds x class x {cell, face}
# ===========================================================================

_BIN = ("add", "sub", "mul", "div", "pow", "gt", "ge", "lt", "le", "and", "or")
_OPK = ("var-var", "var-scalar", "scalar-var", "var-array")
_EVALS = [(f, n) for f, (n, _) in sorted(PURE_FUNCS.items()) if f != "boom"]


def _algebra_cases():
    cases = []
    for kind in ("v", "f"):
        for op in _BIN:
            for ok in _OPK:
                if ok == "scalar-var" and op in ("and", "or"):
                    continue
                cases.append((kind, "binop", op, ok))
        for op in ("neg", "abs"):
            cases.append((kind, "unop", op, None))
        for f, n in _EVALS:
            if kind == "v":
                cases.append((kind, "eval", f, "funceval"))
                cases.append((kind, "eval", f, "celleval"))
            else:
                cases.append((kind, "eval", f, "faceeval"))
    cases.append(("v", "copy", None, None))
    return cases


ALGEBRA_CASES = _algebra_cases()


def algebra_size():
    return NCLS * len(ALGEBRA_CASES)


def plan_algebra(index):
    cls = CLASSES[index % NCLS]
    kind, what, name, extra = ALGEBRA_CASES[index // NCLS]
    rng = _rng("algebra", index)
    pal = "ints" if name in ("gt", "ge", "lt", "le", "and", "or") else \
        ("pos" if name in ("pow", "div") else rng.choice(("real", "zeros", "ints")))
    ops = [_mesh(rng, cls)]
    if kind == "v":
        ops += [{"k": "var", "out": "x", "outb": "bx", "a": {"m": "m1", "val": _vdesc(rng, pal)}},
                {"k": "var", "out": "y", "outb": "by", "a": {"m": "m1", "val": _vdesc(rng, pal)}}]
        ops += _robin_setup(rng, cls, b="bx", p=0.6)
        ops += _robin_setup(rng, cls, b="by", p=0.6)
        ops += [{"k": "apply", "a": {"v": "x"}}] if rng.random() < 0.5 else []
    else:
        ops += [{"k": "face", "out": "x", "a": {"m": "m1", "val": [_vdesc(rng, pal) for _ in range(3)]}},
                {"k": "face", "out": "y", "a": {"m": "m1", "val": [_vdesc(rng, pal) for _ in range(3)]}}]
    out = "res"
    if what == "binop":
        if pal == "ints":
            sc = {"s": float(rng.randint(-2, 2))}
        elif name == "pow":
            sc = {"s": float(rng.choice((2, 3, 0.5, -1)))}
        else:
            sc = {"s": _r(rng, 0.5, 3.0)}
        arr = {"arr": {"d": "const", "x": _r(rng, 0.5, 2.0)}} if kind == "f" \
            else {"arr": _vdesc(rng, pal)}
        l, r = {"var-var": ({"v": "x"}, {"v": "y"}), "var-scalar": ({"v": "x"}, sc),
                "scalar-var": (sc, {"v": "x"}), "var-array": ({"v": "x"}, arr)}[extra]
        if name == "pow" and extra == "scalar-var":
            l = {"s": _r(rng, 0.5, 2.0)}
        op = {"k": "binop", "out": out, "a": {"op": name, "l": l, "r": r}}
    elif what == "unop":
        op = {"k": "unop", "out": out, "a": {"op": name, "x": "x"}}
    elif what == "eval":
        n = PURE_FUNCS[name][0]
        args = ["x", "y"] * 4
        op = {"k": "eval", "out": out, "a": {"fn": extra, "f": name, "args": args[:n]}}
    else:
        op = {"k": "copy", "out": out, "a": {"v": "x"}}
    if kind == "v":
        op["outb"] = "bres"
    ops.append(op)
    # later modification of the result and of the operands, values and BCs
    if kind == "v":
        side = rng.choice(_sides(cls))
        follow = [
            {"k": "val_edit", "a": {"v": out, "how": "slice", "sl": _slspec(rng, 3),
                                    "val": {"d": "const", "x": 7.25, "scalar": True}}},
            {"k": "bc_edit", "a": {"bv": out, "side": side, "coef": "c", "how": "assign",
                                   "val": {"d": "const", "x": 5.5, "scalar": True}, "sl": []}},
            {"k": "bc_periodic", "a": {"bv": out, "side": (_free_sides(cls) or [None])[0], "on": True}}
            if _free_sides(cls) else {"k": "apply", "a": {"v": out}},
            {"k": "val_edit", "a": {"v": "x", "how": "imul", "k": 1.75}},
            {"k": "bc_util", "a": {"bv": "x", "side": side, "fn": "fixedValue",
                                   "val": {"d": "const", "x": -3.5, "scalar": True}}},
            {"k": "val_edit", "a": {"v": "y", "how": "assign", "val": _vdesc(rng)}},
            {"k": "bc_edit", "a": {"bv": "y", "side": side, "coef": "a", "how": "slice",
                                   "val": _coef(rng, side, "a", scalar=False), "sl": _slspec(rng, 2)}},
            {"k": "apply", "a": {"v": out}},
            {"k": "apply", "a": {"v": "x"}},
            {"k": "scribble", "a": {"obj": out, "i": rng.randrange(6), "x": 4.5}},
            {"k": "scribble", "a": {"obj": "bres", "i": rng.randrange(6), "x": 6.5}},
        ]
    else:
        follow = [
            {"k": "scribble", "a": {"obj": out, "i": i, "x": 4.5 + i}} for i in range(3)
        ] + [
            {"k": "scribble", "a": {"obj": "x", "i": i, "x": 2.5 + i}} for i in range(3)
        ] + [{"k": "scribble", "a": {"obj": "y", "i": rng.randrange(3), "x": 8.5}}]
    rng.shuffle(follow)
    if kind == "f":
        follow = [{"k": "eval", "out": "boomres", "a": {"fn": "faceeval", "f": "boom", "args": ["x", ][:1]}},
                  {"k": "scribble", "a": {"obj": "x", "i": rng.randrange(3), "x": 3.25}}] + follow
    if kind == "v":
        # a call that fails part-way (raising user function) must leave its
        # arguments as they were: they are edited right afterwards
        follow = [{"k": "eval", "out": "boomres", "outb": "bboom",
                   "a": {"fn": rng.choice(("funceval", "celleval")), "f": "boom", "args": ["x"]}},
                  {"k": "val_edit", "a": {"v": "x", "how": rng.choice(("assign", "slice", "imul")),
                                          "sl": _slspec(rng, 3), "k": 1.25, "val": _vdesc(rng)}}] + follow
    ops += follow
    # the result is an operand of a further expression
    if what != "copy":
        ops.append({"k": "binop", "out": "res2", "outb": "bres2",
                    "a": {"op": "add", "l": {"v": out}, "r": {"v": "x"}}})
    label = "%s:%s:%s:%s:%s" % (cls, kind, what, name, extra)
    return ops, label


# ===========================================================================
# family "builders" (C15): every public builder x class
# ===========================================================================

BUILDER_NAMES = tuple(sorted(BUILDERS))


def builders_size():
    return NCLS * len(BUILDER_NAMES)


def plan_builders(index):
    cls = CLASSES[index % NCLS]
    fn = BUILDER_NAMES[index // NCLS]
    rng = _rng("builders", index)
    if fn == "convectionUpwindTerm2" and cls not in UPWIND2_CLASSES:
        fn = "convectionUpwindTerm"
    spec, kind = BUILDERS[fn]
    pal = rng.choice(("real", "zeros", "pos"))
    ops = [_mesh(rng, cls),
           {"k": "var", "out": "phi", "outb": "bphi", "a": {"m": "m1", "val": _vdesc(rng, pal)}},
           {"k": "var", "out": "coef", "outb": "bcoef", "a": {"m": "m1", "val": _vdesc(rng, "pos")}}]
    ops += _robin_setup(rng, cls, b="bphi", p=0.6)
    ops += [{"k": "apply", "a": {"v": "phi"}},
            {"k": "face", "out": "u", "a": {"m": "m1", "val": [
                {"d": "rand", "lo": -1.5, "hi": 1.5, "s": _seed(rng)} for _ in range(3)]}},
            {"k": "face", "out": "u2", "a": {"m": "m1", "val": [
                {"d": "zmix", "lo": -1.5, "hi": 1.5, "s": _seed(rng)} for _ in range(3)]}},
            {"k": "face", "out": "D", "a": {"m": "m1", "val": [
                {"d": "rand", "lo": 0.3, "hi": 2.0, "s": _seed(rng)} for _ in range(3)]}}]
    args = []
    nf = 0
    nv = 0
    for s in spec:
        if s == "m":
            args.append("m1")
        elif s == "v":
            args.append("phi" if nv == 0 else "coef")
            nv += 1
        elif s == "f":
            if fn == "diffusionTerm":
                args.append("D")
            else:
                args.append("u" if nf == 0 else "u2")
            nf += 1
        elif s == "b":
            args.append("bphi")
        elif s == "FL":
            args.append(rng.choice(FLUX_LIMITERS))
        elif s == "dt":
            args.append(_r(rng, 0.01, 2.0, 3))
        elif s == "alpha":
            args.append("coef" if rng.random() < 0.5 else _r(rng, 0.5, 2.0))
    if fn in ("linearSourceTerm", "constantSourceTerm") and rng.random() < 0.5:
        args = ["coef"]
    nd = A.GRID_NDIM[cls]
    if kind in ("v*", "f*"):
        out = [("lv%d" if kind == "v*" else "lf%d") % i for i in range(nd)]
        first = out[0]
    else:
        out = "res"
        first = "res"
    build = {"k": "build", "out": out, "a": {"fn": fn, "args": args}}
    ops.append(build)
    ops.append({"k": "rebuild", "a": {"of": first}})
    if kind != "d":
        ops.append({"k": "scribble", "a": {"obj": first, "i": rng.randrange(6), "x": 5.5}})
        # a second product of the same call must not have been affected
        out2 = [o + "b" for o in out] if isinstance(out, list) else "resb"
        ops.append({"k": "build", "out": out2, "a": {"fn": fn, "args": args}})
        ops.append({"k": "rebuild", "a": {"of": out2[0] if isinstance(out2, list) else out2}})
    if kind in ("M", "R", "MR"):
        # reuse across steps: solvePDE modifies only its solution variable
        ops += [{"k": "build", "out": "tD", "a": {"fn": "diffusionTerm", "args": ["D"]}},
                {"k": "build", "out": "tT", "a": {"fn": "transientTerm", "args": ["phi", 0.5, 1.0]}}]
        specs = [{"t": "tT"}, {"t": "tD", "neg": True}, {"t": "resb"}]
        for _ in range(3):
            ops.append({"k": "solve", "a": {"v": "phi", "terms": specs,
                                            "solver": rng.choice((None, None, "ext"))}})
        ops.append({"k": "rebuild", "a": {"of": "tD"}})
    # inputs are modified afterwards: earlier results must stay what they were
    ops += [{"k": "val_edit", "a": {"v": "phi", "how": "imul", "k": 1.5}},
            {"k": "scribble", "a": {"obj": "u", "i": rng.randrange(3), "x": 3.5}},
            {"k": "val_edit", "a": {"v": "coef", "how": "assign", "val": _vdesc(rng, "pos")}},
            {"k": "build", "out": "res3" if not isinstance(out, list) else [o + "c" for o in out],
             "a": {"fn": fn, "args": args}}]
    label = "%s:%s" % (cls, fn)
    return ops, label


# ===========================================================================
# family "terms" (C04): ordered term lists x solver seam x class
# ===========================================================================

TERM_VARIANTS = ("diff-neg", "conv", "lin-scaled", "src", "src-neg-scaled", "trans")
SEAMS = (None, "ext", "ext_mark", "def_record")


def _term_lists():
    out = []
    n = len(TERM_VARIANTS)
    for i in range(n):
        out.append((i,))
    for i in range(n):
        for j in range(n):
            if i != j:
                out.append((i, j))
    for i in range(n):
        for j in range(n):
            for k in range(n):
                if len({i, j, k}) == 3:
                    out.append((i, j, k))
    return out


TERM_LISTS = _term_lists()


def terms_size():
    return NCLS * len(SEAMS) * len(TERM_LISTS)


def plan_terms(index):
    cls = CLASSES[index % NCLS]
    j = index // NCLS
    seam = SEAMS[j % len(SEAMS)]
    tl = TERM_LISTS[j // len(SEAMS)]
    rng = _rng("terms", index)
    ops = [_mesh(rng, cls),
           {"k": "var", "out": "phi", "outb": "bphi", "a": {"m": "m1", "val": _vdesc(rng)}}]
    ops += _robin_setup(rng, cls, b="bphi", p=0.7)
    # a well-posed problem needs a Dirichlet/Robin side or a transient/linear term
    ops.append({"k": "bc_util", "a": {"b": "bphi", "side": "right", "fn": "fixedValue",
                                      "val": {"d": "const", "x": _r(rng, -2.0, 2.0), "scalar": True}}})
    ops += [{"k": "var", "out": "beta", "outb": "bbeta", "a": {"m": "m1", "val": _vdesc(rng, "pos")}},
            {"k": "var", "out": "gam", "outb": "bgam", "a": {"m": "m1", "val": _vdesc(rng)}},
            {"k": "face", "out": "D", "a": {"m": "m1", "val": [
                {"d": "rand", "lo": 0.3, "hi": 2.0, "s": _seed(rng)} for _ in range(3)]}},
            {"k": "face", "out": "u", "a": {"m": "m1", "val": [
                {"d": "rand", "lo": -1.0, "hi": 1.0, "s": _seed(rng)} for _ in range(3)]}}]
    specs = []
    for ti in tl:
        tv = TERM_VARIANTS[ti]
        t = "t_" + tv.replace("-", "_")
        if tv == "diff-neg":
            ops.append({"k": "build", "out": t, "a": {"fn": "diffusionTerm", "args": ["D"]}})
            specs.append({"t": t, "neg": True})
        elif tv == "conv":
            ops.append({"k": "build", "out": t,
                        "a": {"fn": rng.choice(("convectionTerm", "convectionUpwindTerm")),
                              "args": ["u"]}})
            specs.append({"t": t, "fmt": rng.choice((None, "csc", "coo"))})
        elif tv == "lin-scaled":
            ops.append({"k": "build", "out": t, "a": {"fn": "linearSourceTerm", "args": ["beta"]}})
            specs.append({"t": t, "scale": _r(rng, 0.5, 2.0)})
        elif tv == "src":
            ops.append({"k": "build", "out": t, "a": {"fn": "constantSourceTerm", "args": ["gam"]}})
            specs.append({"t": t})
        elif tv == "src-neg-scaled":
            ops.append({"k": "build", "out": t, "a": {"fn": "constantSourceTerm", "args": ["beta"]}})
            specs.append({"t": t, "neg": True, "scale": _r(rng, 0.5, 2.0)})
        else:
            ops.append({"k": "build", "out": t,
                        "a": {"fn": "transientTerm",
                              "args": ["phi", _r(rng, 0.05, 2.0, 3),
                                       "beta" if rng.random() < 0.4 else _r(rng, 0.5, 3.0)]}})
            specs.append({"t": t})
    for s in specs:
        if s.get("fmt") is None:
            s.pop("fmt", None)
    # the same list is used for two consecutive steps, then a boundary value changes
    ops.append({"k": "solve", "a": {"v": "phi", "terms": specs, "solver": seam}})
    ops.append({"k": "solve", "a": {"v": "phi", "terms": specs, "solver": seam}})
    side = rng.choice(_sides(cls))
    ops.append({"k": "bc_edit", "a": {"b": "bphi", "side": side, "coef": "c", "how": "assign",
                                      "val": _coef(rng, side, "c"), "sl": []}})
    ops.append({"k": "solve", "a": {"v": "phi", "terms": list(reversed(specs)), "solver": seam}})
    label = "%s:%s:%s" % (cls, seam, "+".join(TERM_VARIANTS[i] for i in tl))
    return ops, label


# ===========================================================================
# family "steps" (C12): class x alpha kind x dt decade x stepping scheme
# ===========================================================================

DECADES = tuple(range(-6, 6))       # dt = m * 10**e, e = -6 .. 5 : 12 decades
SCHEMES = ("implicit", "explicit", "split", "fixedpoint")


def steps_size():
    return NCLS * 2 * len(DECADES) * len(SCHEMES)


def plan_steps(index):
    cls = CLASSES[index % NCLS]
    j = index // NCLS
    field = bool(j % 2)
    j //= 2
    e = DECADES[j % len(DECADES)]
    scheme = SCHEMES[j // len(DECADES)]
    rng = _rng("steps", index)
    dt = float("%.3g" % (rng.uniform(1.0, 9.9) * 10.0 ** e))
    ops = [_mesh(rng, cls),
           {"k": "var", "out": "phi", "outb": "bphi", "a": {"m": "m1", "val": _vdesc(rng)}}]
    ops += _robin_setup(rng, cls, b="bphi", p=0.7)
    ops += [{"k": "var", "out": "al", "outb": "bal", "a": {"m": "m1", "val": _vdesc(rng, "pos")}},
            {"k": "face", "out": "D", "a": {"m": "m1", "val": [
                {"d": "rand", "lo": 0.3, "hi": 2.0, "s": _seed(rng)} for _ in range(3)]}},
            {"k": "build", "out": "tD", "a": {"fn": "diffusionTerm", "args": ["D"]}},
            {"k": "var", "out": "src", "outb": "bsrc", "a": {"m": "m1", "val": _vdesc(rng)}},
            {"k": "build", "out": "tS", "a": {"fn": "constantSourceTerm", "args": ["src"]}}]
    alpha = "al" if field else _r(rng, 0.2, 5.0)
    cur = "phi"
    n = 0
    side = rng.choice(_sides(cls))
    if scheme == "fixedpoint":
        ops += [{"k": "var", "out": "beta", "outb": "bbeta", "a": {"m": "m1", "val": _vdesc(rng, "pos")}},
                {"k": "build", "out": "tL", "a": {"fn": "linearSourceTerm", "args": ["beta"]}},
                {"k": "fixedpoint", "a": {"v": "phi",
                                          "terms": [{"t": "tD", "neg": True}, {"t": "tL"}, {"t": "tS"}],
                                          "dt": dt, "alpha": alpha, "limits": True}}]
    else:
        for step in range(3):
            if scheme in ("explicit", "split"):
                n += 1
                out = "phiE%d" % n
                rhs = "tR%d" % n
                ops += [{"k": "build", "out": "g%d" % n, "a": {"fn": "gradientTerm", "args": [cur]}},
                        {"k": "binop", "out": "fl%d" % n,
                         "a": {"op": "mul", "l": {"v": "D"}, "r": {"v": "g%d" % n}}},
                        {"k": "build", "out": rhs, "a": {"fn": "divergenceTerm", "args": ["fl%d" % n]}},
                        {"k": "explicit", "out": out, "outb": "bE%d" % n,
                         "a": {"v": cur, "dt": dt, "rhs": {"t": rhs}}}]
                cur = out
            if scheme in ("implicit", "split"):
                n += 1
                tt = "tT%d" % n
                ops += [{"k": "build", "out": tt, "a": {"fn": "transientTerm", "args": [cur, dt, alpha]}},
                        {"k": "solve", "a": {"v": cur, "terms": [{"t": tt}, {"t": "tD", "neg": True},
                                                                 {"t": "tS"}],
                                             "solver": rng.choice((None, None, "ext"))}}]
            if step == 0:
                # a time-dependent boundary value and an in-place change of the storage field
                ops.append({"k": "bc_edit", "a": {"bv": cur, "side": side, "coef": "c", "how": "assign",
                                                  "val": _coef(rng, side, "c"), "sl": []}})
                if field and rng.random() < 0.5:
                    ops.append({"k": "val_edit", "a": {"v": "al", "how": "imul", "k": 1.5}})
                elif field:
                    ops += [{"k": "explicit", "out": "alE", "outb": "balE",
                             "a": {"v": "al", "dt": 0.1,
                                   "rhs": {"d": "rand", "lo": 0.1, "hi": 1.0, "s": _seed(rng)}}},
                            {"k": "val_edit", "a": {"v": "al", "how": "update", "src": "alE"}}]
    label = "%s:%s:alpha-%s:dt=1e%d" % (cls, scheme, "field" if field else "scalar", e)
    return ops, label


# ===========================================================================
# registry
# ===========================================================================

def families(prop, tier):
    """[(family name, total size of its index space, number of runs to execute)]"""
    q = tier == "quick"
    if prop == "C09":
        return [("hist2", hist_size(2), 1800 if q else hist_size(2)),
                ("hist3", hist_size(3), 700 if q else hist_size(3))]
    if prop == "C03":
        return [("bc12", bcmatrix_size((1, 2)), bcmatrix_size((1, 2))),
                ("bc3", bcmatrix_size((3,)), 1500 if q else bcmatrix_size((3,))),
                ("hist2", hist_size(2), 1000 if q else hist_size(2)),
                ("hist3", hist_size(3), 800 if q else 40000)]
    if prop == "C14":
        return [("algebra", algebra_size(), algebra_size()),
                ("hist2", hist_size(2), 600 if q else hist_size(2))]
    if prop == "C15":
        return [("builders", builders_size(), builders_size()),
                ("hist2", hist_size(2), 1000 if q else hist_size(2)),
                ("hist3", hist_size(3), 600 if q else 40000),
                ("terms", terms_size(), 400 if q else terms_size())]
    if prop == "C04":
        return [("terms", terms_size(), 1500 if q else terms_size()),
                ("hist2", hist_size(2), 1000 if q else hist_size(2)),
                ("hist3", hist_size(3), 800 if q else 40000)]
    if prop == "C12":
        return [("steps", steps_size(), steps_size()),
                ("hist2", hist_size(2), 800 if q else hist_size(2)),
                ("hist3", hist_size(3), 800 if q else 40000)]
    return []


def plan(family, index, master=0):
    global MASTER
    MASTER = int(master)
    if family == "hist2":
        return plan_hist(index, 2)
    if family == "hist3":
        return plan_hist(index, 3)
    if family == "bc12":
        return plan_bcmatrix(index, (1, 2))
    if family == "bc3":
        return plan_bcmatrix(index, (3,))
    if family == "algebra":
        return plan_algebra(index)
    if family == "builders":
        return plan_builders(index)
    if family == "terms":
        return plan_terms(index)
    if family == "steps":
        return plan_steps(index)
    raise KeyError(family)


def sample_indices(master, family, total, n):
    """n distinct indices of range(total): a seeded affine permutation, so a
    partial batch is spread over the whole space and a full one covers it."""
    n = min(n, total)
    if n <= 0:
        return []
    if n == total:
        return list(range(total))
    h = hashlib.sha256(("perm|%s|%d|%d" % (family, int(master), int(total))).encode()).digest()
    rng = random.Random(int.from_bytes(h[:6], "big"))
    while True:
        stride = rng.randrange(1, total)
        if math.gcd(stride, total) == 1:
            break
    start = rng.randrange(total)
    return [(start + i * stride) % total for i in range(n)]
