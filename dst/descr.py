"""JSON array descriptors -> numpy arrays, materialised against the shape the
target has at execution time (so ops stay meaningful when a mesh shrinks)."""
import numpy as np


def materialize(d, shape):
    """Return a fresh float ndarray of `shape` described by `d`.  An optional
    "lay" key chooses the memory layout ("F": Fortran order, "strided": a
    non-contiguous view into a larger private buffer); the values are the same."""
    a = _materialize(d, shape)
    lay = d.get("lay")
    if lay == "F" and a.ndim >= 2:
        return np.asfortranarray(a)
    if lay == "strided" and a.ndim >= 1 and a.size:
        buf = np.zeros(tuple(2 * n for n in a.shape))
        view = buf[tuple(slice(None, None, 2) for _ in a.shape)]
        view[...] = a
        return view
    return a


def _materialize(d, shape):
    shape = tuple(int(s) for s in shape)
    n = int(np.prod(shape)) if len(shape) else 1
    k = d["d"]
    if k == "const":
        return np.full(shape, float(d["x"]))
    if k == "ramp":
        if n == 1:
            return np.full(shape, float(d["lo"]))
        return np.linspace(float(d["lo"]), float(d["hi"]), n).reshape(shape)
    g = np.random.Generator(np.random.PCG64(int(d.get("s", 0))))
    if k == "ints":
        return g.integers(int(d["lo"]), int(d["hi"]) + 1, size=shape).astype(float)
    if k == "rand":
        return g.uniform(float(d["lo"]), float(d["hi"]), size=shape)
    if k == "zmix":   # reals with exact zeros sprinkled in
        a = g.uniform(float(d["lo"]), float(d["hi"]), size=shape)
        z = g.uniform(0, 1, size=shape) < 0.3
        a[z] = 0.0
        return a
    raise ValueError("unknown descriptor %r" % (d,))


def is_scalar_desc(d):
    return d["d"] == "const"


def simplify(d):
    """Candidates that are simpler than d (for the shrinker), most drastic first."""
    k = d["d"]
    out = []
    if "lay" in d:
        out.append({kk: vv for kk, vv in d.items() if kk != "lay"})
    if k in ("rand", "zmix"):
        lo, hi = float(d["lo"]), float(d["hi"])
        out.append({"d": "const", "x": round((lo + hi) / 2, 3)})
        out.append({"d": "ramp", "lo": lo, "hi": hi})
    elif k == "ints":
        out.append({"d": "const", "x": float(d["lo"])})
    elif k == "ramp":
        out.append({"d": "const", "x": float(d["lo"])})
    elif k == "const":
        x = float(d["x"])
        if x not in (0.0, 1.0, 2.0):
            out.append({"d": "const", "x": 2.0})
    return out


def rslice(spec, n):
    """slice from a [start, stop] pair taken modulo the axis length n (never empty)."""
    n = int(n)
    if n <= 0:
        return slice(0, 0)
    s = int(spec[0]) % n
    ln = 1 + (int(spec[1]) % (n - s))
    return slice(s, s + ln)


def rslices(specs, shape):
    """One slice per axis of `shape`; missing specs mean the full axis."""
    out = []
    for i, n in enumerate(shape):
        if i < len(specs) and specs[i] is not None:
            out.append(rslice(specs[i], n))
        else:
            out.append(slice(None))
    return tuple(out)
