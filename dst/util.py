"""Small helpers shared by the engine: comparisons, hashing, violations."""
import hashlib
import json

import numpy as np


class Violation(BaseException):
    """An oracle found the implementation breaking a property."""

    def __init__(self, prop, inv, sig, detail=None):
        super().__init__("%s %s %s" % (prop, inv, sig))
        self.prop = prop
        self.inv = inv
        self.sig = sig
        self.detail = detail or {}

    def as_dict(self):
        return {"property": self.prop, "invariant": self.inv,
                "signature": self.sig, "detail": self.detail}

    def cls(self):
        return (self.prop, self.inv, self.sig)


class Skip(BaseException):
    """Op cannot be executed in the current world (missing operand, failed
    precondition): it is a no-op, which keeps every subsequence executable."""


def jdump(o):
    return json.dumps(o, sort_keys=True, separators=(",", ":"), default=_jdefault)


def _jdefault(o):
    if isinstance(o, (np.integer,)):
        return int(o)
    if isinstance(o, (np.floating,)):
        return float(o)
    if isinstance(o, np.ndarray):
        return o.tolist()
    if isinstance(o, bytes):
        return hashlib.sha256(o).hexdigest()[:16]
    return repr(o)


def hsnap(s):
    """sha256 of a (nested tuple / bytes / str / number) snapshot."""
    h = hashlib.sha256()
    _feed(h, s)
    return h.hexdigest()


def _feed(h, s):
    if isinstance(s, bytes):
        h.update(b"B"); h.update(s)
    elif isinstance(s, (tuple, list)):
        h.update(b"(")
        for x in s:
            _feed(h, x)
        h.update(b")")
    elif s is None:
        h.update(b"N")
    else:
        h.update(repr(s).encode())
        h.update(b";")


def same(a, b, rtol=1e-9, atol=0.0):
    """Arrays agree: same shape, same NaN/inf pattern, finite parts within
    rtol relative to the larger magnitude present (scale-aware)."""
    a = np.asarray(a, dtype=float)
    b = np.asarray(b, dtype=float)
    if a.shape != b.shape:
        return False
    if a.size == 0:
        return True
    na, nb = np.isnan(a), np.isnan(b)
    if not np.array_equal(na, nb):
        return False
    ia, ib = np.isinf(a), np.isinf(b)
    if not np.array_equal(ia, ib):
        return False
    if ia.any() and not np.array_equal(a[ia], b[ib]):
        return False
    fin = ~(na | ia)
    if not fin.any():
        return True
    af, bf = a[fin], b[fin]
    scale = max(1.0, float(np.max(np.abs(af))), float(np.max(np.abs(bf))))
    return bool(np.max(np.abs(af - bf)) <= rtol * scale + atol)


def maxdiff(a, b):
    a = np.asarray(a, dtype=float)
    b = np.asarray(b, dtype=float)
    if a.shape != b.shape:
        return "shape %s vs %s" % (a.shape, b.shape)
    with np.errstate(all="ignore"):
        d = np.abs(a - b)
        d = d[np.isfinite(d)]
    return float(d.max()) if d.size else ("nan-pattern" if not same(a, b) else 0.0)


def exact(a, b):
    """Bit-for-bit equality of values (NaN == NaN), dtype-insensitive."""
    a = np.asarray(a, dtype=float)
    b = np.asarray(b, dtype=float)
    return a.shape == b.shape and bool(np.array_equal(a, b, equal_nan=True))


def shares(a, b):
    a = np.asarray(a)
    b = np.asarray(b)
    if a.size == 0 or b.size == 0:
        return False
    if not np.may_share_memory(a, b):
        return False
    try:
        return bool(np.shares_memory(a, b, max_work=10000))
    except Exception:
        return True
