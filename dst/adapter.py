"""The only module that touches PyFVTool's private attributes.

* `load()` imports the *current working tree* of PyFVTool (``/repo/src`` or the
  directory named by ``PYFVTOOL_SRC``) and refuses anything else.
* `snap_*` functions return hashable byte-level snapshots of the *visible*
  state of an object (and, separately, of derived state such as the ghost
  layer and the cached boundary term).

No oracle reads a dirty bit; `_BCsTerm` is read opportunistically only.
"""
import os
import sys

for _k in ("OPENBLAS_NUM_THREADS", "OMP_NUM_THREADS", "MKL_NUM_THREADS"):
    os.environ.setdefault(_k, "1")

import numpy as np  # noqa: E402

SIDES = ("left", "right", "bottom", "top", "back", "front")
SIDE_AXIS = {"left": 0, "right": 0, "bottom": 1, "top": 1, "back": 2, "front": 2}
SIDE_LOW = {"left": True, "right": False, "bottom": True, "top": False,
            "back": True, "front": False}
AXIS_SIDES = {0: ("left", "right"), 1: ("bottom", "top"), 2: ("back", "front")}

GRID_CLASSES = ("Grid1D", "CylindricalGrid1D", "SphericalGrid1D",
                "Grid2D", "CylindricalGrid2D", "PolarGrid2D",
                "Grid3D", "CylindricalGrid3D", "SphericalGrid3D")
GRID_NDIM = {"Grid1D": 1, "CylindricalGrid1D": 1, "SphericalGrid1D": 1,
             "Grid2D": 2, "CylindricalGrid2D": 2, "PolarGrid2D": 2,
             "Grid3D": 3, "CylindricalGrid3D": 3, "SphericalGrid3D": 3}
# classes whose first axis is radial (periodic there is a documented error)
RADIAL = ("CylindricalGrid1D", "SphericalGrid1D", "CylindricalGrid2D",
          "PolarGrid2D", "CylindricalGrid3D", "SphericalGrid3D")

_pf = None


def src_dir():
    return os.path.realpath(os.environ.get("PYFVTOOL_SRC", "/repo/src"))


def load():
    """Import pyfvtool from the working tree; never from a stale copy."""
    global _pf
    if _pf is not None:
        return _pf
    src = src_dir()
    if not os.path.isdir(os.path.join(src, "pyfvtool")):
        raise RuntimeError("no pyfvtool package under %s" % src)
    if src not in sys.path[:1]:
        sys.path.insert(0, src)
    import pyfvtool  # noqa
    got = os.path.realpath(os.path.dirname(pyfvtool.__file__))
    want = os.path.join(src, "pyfvtool")
    if got != want:
        raise RuntimeError("pyfvtool imported from %s, wanted %s" % (got, want))
    _pf = pyfvtool
    return _pf


def reset():
    """Forget the imported library and import it afresh: module-level caches,
    mutable default arguments and class attributes inside PyFVTool are back to
    their import-time state.  Called at the start of every chunk of runs, so that
    what a run sees depends on the earlier runs of its own chunk only (which are
    recorded with a violation), exactly as in a fresh interpreter."""
    global _pf
    for k in [k for k in sys.modules if k == "pyfvtool" or k.startswith("pyfvtool.")]:
        del sys.modules[k]
    _pf = None
    return load()


def cell_module():
    load()
    import pyfvtool.cell as cm
    return cm


def pdesolver_module():
    load()
    import pyfvtool.pdesolver as ps
    return ps


# --------------------------------------------------------------------------
# byte snapshots
# --------------------------------------------------------------------------

def akey(a):
    """Hashable identity of an array's content: dtype, shape, bytes."""
    a = np.asarray(a)
    return (a.dtype.str, a.shape, a.tobytes())


def cls_name(mesh):
    return type(mesh).__name__


def mesh_ndim(mesh):
    return GRID_NDIM[cls_name(mesh)]


def _prop_key(p):
    lab = tuple(sorted((str(k), str(v)) for k, v in p.coordlabels.items()))
    return (akey(p._x), akey(p._y), akey(p._z), lab)


def snap_mesh(m):
    return (cls_name(m), akey(m.dims), _prop_key(m.cellsize),
            _prop_key(m.cellcenters), _prop_key(m.facecenters),
            akey(m.corners), akey(m.edges))


def mesh_arrays(m):
    """All ndarray storage owned by a mesh (for alias checks)."""
    out = [("dims", m.dims), ("corners", m.corners), ("edges", m.edges)]
    for pn in ("cellsize", "cellcenters", "facecenters"):
        p = getattr(m, pn)
        for an in ("_x", "_y", "_z"):
            out.append((pn + "." + an, getattr(p, an)))
    return out


def bc_side(bc, side):
    return getattr(bc, side)


def snap_bc(bc):
    out = []
    for s in SIDES:
        f = getattr(bc, s)
        out.append((akey(f.a), akey(f.b), akey(f.c), bool(f.periodic)))
    return tuple(out)


def bc_arrays(bc):
    out = []
    for s in SIDES:
        f = getattr(bc, s)
        for c in ("a", "b", "c"):
            out.append((s + "." + c, np.asarray(getattr(f, c))))
    return out


def read_bc(bc):
    """Visible state of a BC object as plain python / numpy values."""
    d = {}
    for s in SIDES:
        f = getattr(bc, s)
        d[s] = {"a": np.array(f.a, dtype=float, copy=True).view(np.ndarray),
                "b": np.array(f.b, dtype=float, copy=True).view(np.ndarray),
                "c": np.array(f.c, dtype=float, copy=True).view(np.ndarray),
                "periodic": bool(f.periodic)}
    return d


def full_array(v):
    return np.asarray(v._value).view(np.ndarray)


def interior(v):
    return np.array(np.asarray(v.value).view(np.ndarray), copy=True)


def interior_of_full(full, nd):
    sl = (slice(1, -1),) * nd
    return full[sl]


def cache_of(v):
    """The cached boundary term, if the implementation keeps one *as a plain
    instance attribute*.  Read from the instance dictionary only: a snapshot must
    never trigger a property (a refactoring may turn `_BCsTerm` into a lazily
    filling accessor, whose evaluation changes state and may raise)."""
    try:
        t = vars(v).get("_BCsTerm")
    except TypeError:
        t = None
    if t is None:
        return None
    try:
        M, R = t
        return (M, R)
    except Exception:
        return None


def snap_csr(M):
    M = M.tocsr() if hasattr(M, "tocsr") else M
    return ("csr", tuple(M.shape), akey(M.data), akey(M.indices), akey(M.indptr))


def snap_term(t):
    if isinstance(t, tuple):
        return ("tuple",) + tuple(snap_term(x) for x in t)
    if hasattr(t, "tocsr"):
        return snap_csr(t)
    return ("arr", akey(t))


def snap_cell(v):
    """(visible, derived): visible = interior bytes; derived = ghost layer
    (full array bytes) and cache bytes."""
    # values, not storage type: apply_BCs / solves legitimately turn an integer
    # or boolean value array into float64 holding the same numbers
    vis = akey(np.asarray(v.value, dtype=float))
    c = cache_of(v)
    der = (akey(np.asarray(full_array(v), dtype=float)),
           None if c is None else (snap_csr(c[0]), akey(c[1])))
    return vis, der


def snap_face(f):
    return (akey(f._xvalue), akey(f._yvalue), akey(f._zvalue))


def face_arrays(f):
    return [("_xvalue", f._xvalue), ("_yvalue", f._yvalue), ("_zvalue", f._zvalue)]


def term_arrays(t):
    if isinstance(t, tuple):
        out = []
        for i, x in enumerate(t):
            out += [("[%d]." % i + n, a) for n, a in term_arrays(x)]
        return out
    if hasattr(t, "tocsr"):
        # csr / csc: data, indices, indptr; coo: data, row, col
        return [(n, getattr(t, n)) for n in ("data", "indices", "indptr", "row", "col")
                if isinstance(getattr(t, n, None), np.ndarray)]
    return [("arr", np.asarray(t))]


def cell_arrays(v):
    out = [("_value", full_array(v))]
    c = cache_of(v)
    if c is not None:
        out += [("cache.M." + n, a) for n, a in term_arrays(c[0])]
        out += [("cache.RHS", np.asarray(c[1]))]
    return out
